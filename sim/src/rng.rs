//! The only source of randomness in the simulator: SplitMix64 seeded from VERIF_SEED.
//! Every generated trace is a pure function of (VERIF_SEED, batch tag, run index).

#[derive(Clone, Debug)]
pub struct Rng {
    s: u64,
}

pub fn mix(a: u64, b: u64) -> u64 {
    let mut z = a
        .wrapping_mul(0x9E37_79B9_7F4A_7C15)
        .wrapping_add(b)
        .wrapping_add(0x632B_E59B_D9B4_E019);
    z = (z ^ (z >> 30)).wrapping_mul(0xBF58_476D_1CE4_E5B9);
    z = (z ^ (z >> 27)).wrapping_mul(0x94D0_49BB_1331_11EB);
    z ^ (z >> 31)
}

pub fn run_seed(verif_seed: u64, tag: u64, run: u64) -> u64 {
    mix(mix(verif_seed, tag), run)
}

impl Rng {
    pub fn new(seed: u64) -> Self {
        Rng { s: seed }
    }

    pub fn next(&mut self) -> u64 {
        self.s = self.s.wrapping_add(0x9E37_79B9_7F4A_7C15);
        let mut z = self.s;
        z = (z ^ (z >> 30)).wrapping_mul(0xBF58_476D_1CE4_E5B9);
        z = (z ^ (z >> 27)).wrapping_mul(0x94D0_49BB_1331_11EB);
        z ^ (z >> 31)
    }

    /// uniform in 0..n; below(0) draws once and yields 0 (identical in every build profile)
    pub fn below(&mut self, n: u64) -> u64 {
        // multiply-shift; bias is irrelevant here
        ((self.next() as u128 * n as u128) >> 64) as u64
    }

    pub fn range(&mut self, lo: u64, hi_incl: u64) -> u64 {
        lo + self.below(hi_incl - lo + 1)
    }

    pub fn chance(&mut self, num: u64, den: u64) -> bool {
        self.below(den) < num
    }

    pub fn pick<'a, T>(&mut self, xs: &'a [T]) -> &'a T {
        &xs[self.below(xs.len() as u64) as usize]
    }

    /// Boundary-biased value of the given bit width (1..=64).
    pub fn val(&mut self, bits: u32) -> u64 {
        let mask = if bits >= 64 { u64::MAX } else { (1u64 << bits) - 1 };
        let v = match self.below(12) {
            0 => 0,
            1 => 1,
            2 => mask,
            3 => *self.pick(&[0x7f, 0x80, 0xff, 0x100, 0xffff, 0x1_0000, 0xffff_ffff, 0x1_0000_0000]),
            4 => 1u64 << self.below(bits as u64),
            5 => {
                let b = self.below(256);
                b * 0x0101_0101_0101_0101
            }
            6 => mask.wrapping_sub(self.below(4)),
            7 => self.below(4),
            8 => self.below(300),
            _ => self.next(),
        };
        v & mask
    }

    pub fn bytes(&mut self, n: usize) -> Vec<u8> {
        let mode = self.below(6);
        (0..n)
            .map(|_| match mode {
                0 => 0,
                1 => 0xff,
                2 => self.below(3) as u8,
                _ => self.next() as u8,
            })
            .collect()
    }
}
