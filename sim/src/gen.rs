//! Seeded trace generation (swarm style): subject, history-length class, op mix, fault kinds and
//! rates, value distribution, sub-element counts and handle references all come from one PRNG.
//! Generation never executes anything; the result is a self-contained `Op` tree.

use crate::amlgen;
use crate::op::{Op, K};
use crate::rng::Rng;

#[derive(Clone, Debug)]
pub struct GenCfg {
    pub subjects: Vec<K>,
    /// inject faults (refusals, sink aborts, producer aborts); false = the fault-free configuration
    pub faults: bool,
    /// weights of the history-length classes: empty, short, medium, boundary-256, long, boundary-64k, boundary-16M
    pub classes: [u64; 7],
    /// also generate sub-element counts that do not fit the entry's own count/length field (PPTT
    /// private resources > 58, CXIMS bitmaps > 255). Entry framing is then C18's matter, but table
    /// checksum and Length must still hold, so only the C01/C02 batches turn this on.
    pub oversize: bool,
    /// thorough tier only: much larger bounds (histories of up to 30 000 operations, SLIT with ~1 000
    /// localities, generic tables of hundreds of KiB, megabyte slices into the accumulator)
    pub deep: bool,
    /// also write public fields of the RSDP / FACS directly (C14 batches only, see exec::ConstSubj)
    pub pokes: bool,
}

pub const TABLES: [K; 13] = [K::Xsdt, K::Mcfg, K::Madt, K::Srat, K::Slit, K::Hmat, K::Pptt, K::Rhct, K::Rimt, K::Viot, K::Cedt, K::Hest, K::Rqsc];
pub const CHECKSUMMED: [K; 21] = [
    K::Xsdt, K::Mcfg, K::Madt, K::Srat, K::Slit, K::Hmat, K::Pptt, K::Rhct, K::Rimt, K::Viot, K::Cedt, K::Hest, K::Rqsc, K::Tpm2, K::TcpaServer, K::TcpaClient, K::Fadt, K::Bert,
    K::Spcr, K::Rsdp, K::SdtSubj,
];

#[derive(Default)]
struct HandleCounts {
    proc_: u64,
    cache: u64,
    isa: u64,
    cmo: u64,
    iommu: u64,
    trans: u64,
    imsic: bool,
    log_area: bool,
    body: u64,
}

fn root(rng: &mut Rng, k: K) -> Op {
    let mut r = Op::new(k);
    let oem = match rng.below(4) {
        0 => b"FOOBARDECAFCOF".to_vec(),
        1 => vec![0u8; 14],
        2 => vec![0xffu8; 14],
        _ => rng.bytes(14),
    };
    r.b = oem;
    r.a = vec![rng.val(32), rng.next()];
    r
}

fn pci(rng: &mut Rng, faults: bool) -> [u64; 4] {
    let (mut d, mut f) = (rng.below(32), rng.below(8));
    if faults && rng.chance(1, 12) {
        if rng.chance(1, 2) {
            d = 32 + rng.below(224);
        } else {
            f = 8 + rng.below(248);
        }
    }
    [rng.val(16), rng.val(8), d, f]
}

fn gas_args(rng: &mut Rng) -> [u64; 5] {
    [rng.below(13), rng.val(8), rng.val(8), rng.below(5), rng.val(64)]
}

/// option calls: a random sub-multiset of `opts` in random order, with repetitions
fn options(rng: &mut Rng, opts: &[K]) -> Vec<Op> {
    let mut v = Vec::new();
    let mode = rng.below(6);
    for k in opts {
        let take = match mode {
            0 => false,
            1 => true,
            _ => rng.chance(1, 2),
        };
        if take {
            v.push(Op::new(*k));
            if rng.chance(1, 6) {
                v.push(Op::new(*k)); // repetition
            }
        }
    }
    if mode == 5 && !opts.is_empty() {
        v.clear();
        v.push(Op::new(*rng.pick(opts))); // singleton
    }
    shuffle(rng, &mut v);
    v
}

fn shuffle<T>(rng: &mut Rng, v: &mut [T]) {
    for i in (1..v.len()).rev() {
        let j = rng.below(i as u64 + 1) as usize;
        v.swap(i, j);
    }
}

fn small_count(rng: &mut Rng, max: u64) -> u64 {
    match rng.below(16) {
        0..=3 => 0,
        4..=7 => 1,
        8..=11 => 2 + rng.below(3),
        12 | 13 => rng.below(max.min(16) + 1),
        14 => max - rng.below(2).min(max), // the largest count that fits, and one below
        _ => rng.below(max + 1),
    }
}

/// rarely: a sub-element count that makes one entry very large (tens of KiB) while still fitting
/// the entry's own length and count fields
fn huge(rng: &mut Rng, cheap: bool, lo: u64, hi: u64) -> Option<u64> {
    if !cheap && rng.chance(1, 400) {
        Some(lo + rng.below(hi - lo + 1))
    } else {
        None
    }
}

fn gen_entry(rng: &mut Rng, subject: K, h: &mut HandleCounts, faults: bool, cheap: bool, oversize: bool) -> Op {
    use K::*;
    // tail args a[9], a[10] steer optional per-entry fault injection (sink abort on the entry)
    let tail = |rng: &mut Rng, mut op: Op| -> Op {
        while op.a.len() < 9 {
            op.a.push(0);
        }
        op.a.push(if faults { rng.below(7) } else { 0 });
        op.a.push(rng.next() & 0xffff);
        op
    };
    let op = match subject {
        Xsdt => Op::new(XAddEntry).a(&[rng.val(64)]),
        Mcfg => Op::new(McAddEcam).a(&[rng.val(64), rng.val(16), rng.val(8), rng.val(8)]),
        Madt => {
            let kinds = [MaLapic, MaIoApic, MaGicc, MaGicd, MaGicMsi, MaGicr, MaGicIts, MaRintc, MaImsic, MaAplic, MaPlic, MaRawPair];
            let mut k = if cheap && rng.chance(3, 4) { MaLapic } else { *rng.pick(&kinds) };
            if k == MaImsic {
                if h.imsic && !(faults && rng.chance(1, 2)) {
                    k = MaRintc;
                }
                if k == MaImsic {
                    h.imsic = true;
                }
            }
            match k {
                MaLapic => Op::new(k).a(&[rng.val(8), rng.val(8), rng.below(3)]),
                MaRawPair => Op::new(k).a(&[rng.val(8), rng.val(8), rng.val(8), rng.val(8), rng.below(3), rng.below(3)]),
                MaIoApic => Op::new(k).a(&[rng.val(8), rng.val(32), rng.val(32)]),
                MaGicc => {
                    let mut s = Vec::new();
                    if rng.chance(1, 2) {
                        s.push(Op::new(GcPerfInt).a(&[rng.val(32), rng.below(2)]));
                    }
                    if rng.chance(1, 2) {
                        s.push(Op::new(GcMaintInt).a(&[rng.val(32), rng.below(2)]));
                    }
                    if rng.chance(1, 4) {
                        s.push(Op::new(GcPerfInt).a(&[rng.val(32), rng.below(2)]));
                    }
                    for _ in 0..small_count(rng, 6) {
                        let f = rng.below(12);
                        s.push(Op::new(GcSet).a(&[f, rng.val(64)]));
                    }
                    shuffle(rng, &mut s);
                    Op::new(k).a(&[rng.below(3)]).s(s)
                }
                MaGicd => Op::new(k).a(&[rng.val(32), rng.val(64), rng.below(5)]),
                MaGicMsi => {
                    let mut s = Vec::new();
                    if rng.chance(1, 2) {
                        s.push(Op::new(MsFrameId).a(&[rng.val(32)]));
                    }
                    if rng.chance(1, 2) {
                        s.push(Op::new(MsBase).a(&[rng.val(64)]));
                    }
                    if rng.chance(1, 2) {
                        s.push(Op::new(MsSpi).a(&[rng.val(16), rng.val(16)]));
                    }
                    shuffle(rng, &mut s);
                    Op::new(k).s(s)
                }
                MaGicr => Op::new(k).a(&[rng.val(64), rng.val(32)]),
                MaGicIts => Op::new(k).a(&[rng.val(32), rng.val(64)]),
                MaRintc => Op::new(k).a(&[rng.below(3), rng.val(64), rng.val(32), rng.val(32), rng.val(64), rng.val(32)]),
                MaImsic => Op::new(k).a(&[rng.val(16), rng.val(16), rng.val(8), rng.val(8), rng.val(8), rng.val(8)]),
                MaAplic => Op::new(k).a(&[rng.val(8), rng.val(16), rng.val(32), rng.val(64), rng.val(32), rng.val(16)]).b(&rng.bytes(8)),
                _ => Op::new(MaPlic).a(&[rng.val(8), rng.val(16), rng.val(16), rng.val(32), rng.val(64), rng.val(32)]).b(&rng.bytes(8)),
            }
        }
        Srat => match rng.below(3) {
            0 => Op::new(SrMemAff).a(&[rng.val(32), rng.val(64), rng.val(64)]).s(options(rng, &[OptEnabled, OptHotplug, OptNonVolatile])),
            1 => {
                let p = pci(rng, faults);
                Op::new(SrGenInit).a(&[rng.val(32), rng.below(2), p[0], p[1], p[2], p[3]]).b(&rng.bytes(12)).s(options(rng, &[OptEnabled, OptArch]))
            }
            _ => {
                let mut s = options(rng, &[OptEnabled]);
                if crate::compat::HAS_RINTC_AFF_PROX && rng.chance(1, 2) {
                    s.push(Op::new(OptProxDomain).a(&[rng.val(32)]));
                    shuffle(rng, &mut s);
                }
                Op::new(SrRintcAff).a(&[rng.val(32)]).b(&rng.bytes(4)).s(s)
            }
        },
        Hmat => match if cheap { 0 } else { rng.below(3) } {
            0 => Op::new(HmMemProx).a(&[rng.val(32), rng.val(32)]),
            1 => {
                let (mut i, mut t) = shape(rng);
                if let Some(n) = huge(rng, cheap, 150, 300) {
                    // a matrix of 2*i*t bytes around or beyond 64 KiB (the entry length is a dword)
                    i = n;
                    t = 100 + rng.below(200);
                }
                let mut s = options(rng, &[LocNonSeq, LocMinTransfer]);
                if faults && rng.chance(1, 10) {
                    // a list index just past (or well past) its list: the builder must refuse it
                    if rng.chance(1, 2) {
                        s.push(Op::new(LocSetInit).a(&[oor_list_index(rng, i), rng.val(32), 1]));
                    } else {
                        s.push(Op::new(LocSetTarget).a(&[oor_list_index(rng, t), rng.val(32), 1]));
                    }
                }
                for _ in 0..small_count(rng, 12) {
                    match rng.below(4) {
                        0 => s.push(Op::new(LocSetInit).a(&[rng.below(i.max(1)), rng.val(32)])),
                        1 => s.push(Op::new(LocSetTarget).a(&[rng.below(t.max(1)), rng.val(32)])),
                        _ => s.push(Op::new(LocSetEntry).a(&[rng.below(i.max(1)), rng.below(t.max(1)), rng.val(16)])),
                    }
                }
                Op::new(HmSysLoc).a(&[rng.below(4), rng.below(6), rng.below(12), rng.val(64), i, t]).s(s)
            }
            _ => {
                let n = huge(rng, cheap, 30_000, 40_000).unwrap_or_else(|| small_count(rng, 40));
                let s = (0..n).map(|_| Op::new(MscHandle).a(&[rng.val(16)])).collect();
                Op::new(HmMsc).a(&[rng.val(32), rng.val(64), rng.below(4), rng.below(4), rng.below(3), rng.below(3), rng.val(16)]).s(s)
            }
        },
        Pptt => {
            if rng.chance(1, 2) || (cheap && rng.chance(2, 3)) {
                let mut s = Vec::new();
                if h.cache > 0 && rng.chance(1, 2) {
                    s.push(Op::new(CnNextLevel).a(&[refidx(rng, h.cache)]));
                }
                let vals: [(K, u32); 8] = [(CnSize, 32), (CnSets, 32), (CnAssoc, 8), (CnAlloc, 2), (CnType, 2), (CnPolicy, 1), (CnLineSize, 16), (CnId, 32)];
                let mode = rng.below(4);
                for (k, bits) in vals {
                    if mode == 0 || (mode > 1 && rng.chance(1, 2)) {
                        // an enumerated attribute keeps one value per history (see DESIGN C11)
                        let v = rng.val(bits.max(2));
                        s.push(Op::new(k).a(&[v]));
                        if rng.chance(1, 8) {
                            s.push(Op::new(k).a(&[v]));
                        }
                    }
                }
                shuffle(rng, &mut s);
                h.cache += 1;
                Op::new(PpCache).s(s)
            } else {
                let mut s = options(rng, &[PnPhysical, PnValid, PnThread, PnLeaf, PnIdentical]);
                if h.cache > 0 {
                    let n = if oversize && rng.chance(1, 12) { 59 + rng.below(40) } else { small_count(rng, 58) };
                    for _ in 0..n {
                        s.push(Op::new(PnAddCache).a(&[refidx(rng, h.cache)]));
                    }
                    shuffle(rng, &mut s);
                }
                let parent = if h.proc_ > 0 && rng.chance(2, 3) { 1 + refidx(rng, h.proc_) } else { 0 };
                h.proc_ += 1;
                Op::new(PpProc).a(&[parent, rng.val(32)]).s(s)
            }
        }
        Rhct => match if cheap { 1 } else { rng.below(5) } {
            0 => {
                h.isa += 1;
                let len = match rng.below(5) {
                    0 => rng.below(4),
                    1 => rng.below(40),
                    _ => rng.below(301),
                };
                Op::new(RhIsa).a(&[len, rng.below(4)])
            }
            1 => Op::new(RhMmu).a(&[rng.below(3)]),
            2 => {
                h.cmo += 1;
                Op::new(RhCmo).a(&[rng.val(8), rng.val(8), rng.val(8)])
            }
            _ => {
                if h.isa == 0 {
                    h.isa += 1;
                    Op::new(RhIsa).a(&[rng.below(60), rng.below(4)])
                } else {
                    let mut s = Vec::new();
                    if h.cmo > 0 {
                        // offsets: 12 + 4n must fit the 16-bit node length
                        let n = huge(rng, cheap, 1_000, 16_000).unwrap_or_else(|| small_count(rng, 6));
                        for _ in 0..n {
                            s.push(Op::new(HiCmo).a(&[refidx(rng, h.cmo)]));
                        }
                    }
                    Op::new(RhHartInfo).a(&[rng.val(32), refidx(rng, h.isa)]).s(s)
                }
            }
        },
        Rimt => {
            let maps = |rng: &mut Rng, h: &HandleCounts| -> Vec<Op> {
                if h.iommu == 0 {
                    return Vec::new();
                }
                // 16 + 20n (or 13 + name + 20n) must fit the 16-bit device length
                let n = huge(rng, false, 1_000, 3_200).unwrap_or_else(|| small_count(rng, 20));
                (0..n)
                    .map(|_| Op::new(RiMap).a(&[rng.val(32), rng.val(32), rng.val(32), refidx(rng, h.iommu), rng.below(2), rng.below(2), rng.below(2)]))
                    .collect()
            };
            match if h.iommu == 0 || cheap { 0 } else { rng.below(3) } {
                0 => {
                    let p = pci(rng, faults);
                    // 32 + 8n must fit the 16-bit device length
                    let nw = if cheap { 0 } else { huge(rng, cheap, 2_000, 8_187).unwrap_or_else(|| small_count(rng, 24)) };
                    let wires: Vec<Op> = (0..nw).map(|_| Op::new(RiWire).a(&[rng.val(32), rng.below(2), rng.below(2), rng.val(16)])).collect();
                    h.iommu += 1;
                    Op::new(RiIommu).a(&[rng.val(16), rng.below(16), rng.val(64), p[0], p[1], p[2], p[3], rng.val(32)]).s(wires)
                }
                1 => Op::new(RiRc).a(&[rng.val(16), rng.val(16), rng.below(2), rng.below(2), rng.below(2)]).s(maps(rng, h)),
                _ => {
                    let n = match rng.below(4) {
                        0 => 0,
                        1 => 1 + rng.below(2),
                        _ => rng.below(60),
                    };
                    Op::new(RiPlatform).a(&[rng.val(16), rng.below(2)]).b(&rng.bytes(n as usize)).s(maps(rng, h))
                }
            }
        }
        Viot => {
            let want_ep = h.trans > 0 && rng.chance(1, 2);
            if want_ep {
                if rng.chance(1, 2) {
                    let f = pci(rng, faults);
                    let l = pci(rng, faults);
                    Op::new(ViPciRange).a(&[f[0], f[1], f[2], f[3], l[0], l[1], l[2], l[3], refidx(rng, h.trans)])
                } else {
                    Op::new(ViMmioEp).a(&[rng.val(32), rng.val(64), refidx(rng, h.trans)])
                }
            } else {
                h.trans += 1;
                if rng.chance(1, 2) {
                    let p = pci(rng, faults);
                    Op::new(ViPciIommu).a(&p)
                } else {
                    Op::new(ViMmioIommu).a(&[rng.val(64)])
                }
            }
        }
        Cedt => match if cheap { 0 } else { rng.below(4) } {
            0 => Op::new(CeChbs).a(&[rng.val(32), rng.below(2), rng.val(64)]),
            1 => {
                let w = rng.below(8);
                let n = [1u64, 2, 4, 8, 16, 3, 6, 12][w as usize];
                let mut s = options(rng, &[WrType2, WrType3, WrVolatile, WrPersistent, WrFixed]);
                let nt = if faults && rng.chance(1, 8) { n.saturating_sub(1 + rng.below(2)) + if rng.chance(1, 2) { 0 } else { 3 } } else { n };
                for _ in 0..nt {
                    s.push(Op::new(CfTarget).b(&rng.bytes(4)));
                }
                Op::new(CeCfmws).a(&[rng.val(64), rng.val(64), rng.below(2), rng.below(7), w, rng.val(16)]).s(s)
            }
            2 => {
                let n = if oversize && rng.chance(1, 12) { 256 + rng.below(40) } else { small_count(rng, 255) };
                let s = (0..n).map(|_| Op::new(CxXormap).a(&[rng.val(64)])).collect();
                Op::new(CeCxims).a(&[rng.below(7)]).s(s)
            }
            _ => {
                let p = pci(rng, faults);
                Op::new(CeRdpas).a(&[p[0], p[1], p[2], p[3], rng.below(2), rng.val(64)])
            }
        },
        Hest => {
            let k = if cheap { HeAerDev } else { *rng.pick(&[HeAerRoot, HeAerDev, HeAerBridge, HeGhes, HeGhesV2]) };
            let nf = crate::build::he_set_fields(k);
            let mut s = Vec::new();
            for _ in 0..small_count(rng, 6) {
                let f = rng.below(nf);
                let mut o = Op::new(HeSet).a(&[f, rng.val(64)]);
                if matches!(k, HeGhes | HeGhesV2) && (f == 3 || f == 6) {
                    o = Op::new(HeSet).a(&[f]).a(&gas_args(rng));
                }
                if matches!(k, HeGhes | HeGhesV2) && f == 4 {
                    o = Op::new(HeSet).a(&[f, rng.below(16), rng.val(16), rng.val(32), rng.val(32), rng.val(32), rng.val(32), rng.val(32), rng.val(32)]);
                }
                s.push(o);
            }
            if matches!(k, HeGhes | HeGhesV2) {
                Op::new(k).a(&[rng.val(16), rng.below(2)]).s(s)
            } else {
                let p = pci(rng, faults);
                Op::new(k).a(&[rng.below(2), rng.below(2), p[1], p[2], p[3]]).s(s)
            }
        }
        Rqsc => {
            // 28 + sum of resource lengths must fit the 16-bit controller length
            let n = if cheap { 0 } else { huge(rng, cheap, 300, 1_200).unwrap_or_else(|| small_count(rng, 12)) };
            let s = (0..n)
                .map(|_| {
                    let idk = rng.below(5);
                    let mut o = Op::new(RqRes).a(&[rng.below(2), rng.val(16), idk, rng.val(64), rng.val(64)]);
                    if idk == 4 {
                        // vendor-specific payload: normally Resource ID 1+2 (12 bytes) plus data, but any length is accepted
                        let n = match rng.below(6) {
                            0 => rng.below(12) as usize,
                            1 => 12,
                            _ => 12 + rng.below(30) as usize,
                        };
                        o.b = rng.bytes(n);
                    }
                    o
                })
                .collect();
            let g = gas_args(rng);
            Op::new(RqController).a(&[rng.below(2), g[0], g[1], g[2], g[3], g[4], rng.val(32), rng.val(32), rng.val(16)]).s(s)
        }
        _ => Op::new(ObsAbort),
    };
    tail(rng, op)
}

/// byte string for slice operations: long ones are dense (0xff-heavy or random) so that wide
/// accumulators are driven towards their carries
fn dense(rng: &mut Rng, n: usize) -> Vec<u8> {
    if n > (1 << 24) {
        return vec![0xff; n];
    }
    if n >= 200 {
        match rng.below(3) {
            0 => vec![0xff; n],
            1 => (0..n).map(|_| 0x80 | rng.next() as u8).collect(),
            _ => (0..n).map(|_| rng.next() as u8).collect(),
        }
    } else {
        rng.bytes(n)
    }
}

/// a copy of `src`: half the time exact, otherwise with one scalar argument redrawn, one option
/// call dropped, or one option call repeated (sub-element adders are left alone so that the copy
/// stays well-formed)
fn near_duplicate(rng: &mut Rng, src: &Op) -> Op {
    let mut o = src.clone();
    let is_option = |k: K| {
        use K::*;
        matches!(
            k,
            OptEnabled | OptHotplug | OptNonVolatile | OptArch | OptProxDomain | PnPhysical | PnValid | PnThread | PnLeaf | PnIdentical | CnNextLevel | CnSize | CnSets | CnAssoc | CnAlloc | CnType
                | CnPolicy | CnLineSize | CnId | WrType2 | WrType3 | WrVolatile | WrPersistent | WrFixed | LocNonSeq | LocMinTransfer | GcPerfInt | GcMaintInt | GcSet | MsFrameId | MsBase | MsSpi | HeSet
        )
    };
    match rng.below(6) {
        0..=2 => {}
        3 if !o.a.is_empty() => {
            // one constructor argument redrawn (the fault-steering tail arguments 9 and 10 are left alone)
            let n = o.a.len().min(9);
            let i = rng.below(n as u64) as usize;
            o.a[i] = match rng.below(3) {
                0 => o.a[i].wrapping_add(1),
                1 => rng.below(8),
                _ => rng.val(64),
            };
        }
        4 => {
            let idx: Vec<usize> = o.s.iter().enumerate().filter(|(_, c)| is_option(c.k)).map(|(i, _)| i).collect();
            if !idx.is_empty() {
                let i = idx[rng.below(idx.len() as u64) as usize];
                o.s.remove(i);
            }
        }
        _ => {
            let idx: Vec<usize> = o.s.iter().enumerate().filter(|(_, c)| is_option(c.k)).map(|(i, _)| i).collect();
            if !idx.is_empty() {
                let i = idx[rng.below(idx.len() as u64) as usize];
                let c = o.s[i].clone();
                o.s.push(c);
            }
        }
    }
    o
}

/// an index that is out of range for a dimension of size n: just past the end, far past it, or an
/// in-range value with a high bit set (truncating index arithmetic would fold it back in range)
fn oor_index(rng: &mut Rng, n: u64) -> u64 {
    let x = if n > 0 { rng.below(n) } else { 0 };
    match rng.below(8) {
        0..=2 => n + rng.below(3),
        3 => n + 255 + rng.below(3),
        4 => x | 1 << 8 | if n > 256 { 1 << 16 } else { 0 },
        5 => x | 1 << 16 | if n > 65_536 { 1 << 20 } else { 0 },
        6 => x | 1 << 32,
        // (no values near 2^64: index arithmetic on them wraps in release builds and traps in builds
        // with overflow checks, which is C18's subject, not this one's)
        _ => x | 1 << 40,
    }
    .max(n)
}

/// out-of-range index for a *list* (a lenient implementation might grow the list up to the index,
/// so these stay below 2^17 to keep such a change from exhausting memory instead of being reported)
fn oor_list_index(rng: &mut Rng, n: u64) -> u64 {
    loop {
        let v = oor_index(rng, n);
        if v < (1 << 17) {
            return v;
        }
    }
}

fn refidx(rng: &mut Rng, n: u64) -> u64 {
    // uniform over all handles minted so far, biased to the first and the most recent
    match rng.below(6) {
        0 => 0,
        1 => n - 1,
        _ => rng.below(n),
    }
}

fn shape(rng: &mut Rng) -> (u64, u64) {
    match rng.below(8) {
        0 => (0, rng.below(4)),
        1 => (rng.below(4), 0),
        2 => (1, 1 + rng.below(8)),
        3 => (1 + rng.below(8), 1),
        4 => {
            let n = 1 + rng.below(6);
            (n, n)
        }
        5 => (1 + rng.below(6), 1 + rng.below(6)),
        _ => (rng.below(24), rng.below(24)),
    }
}

fn length_class(rng: &mut Rng, w: &[u64; 7]) -> usize {
    let tot: u64 = w.iter().sum();
    let mut x = rng.below(tot.max(1));
    for (i, wi) in w.iter().enumerate() {
        if x < *wi {
            return i;
        }
        x -= wi;
    }
    1
}

fn n_for_class(rng: &mut Rng, class: usize, deep: bool) -> usize {
    match class {
        0 => 0,
        1 => 1 + rng.below(12) as usize,
        2 => 13 + rng.below(188) as usize,
        3 => 257 + rng.below(12) as usize, // always carries a count across 255 -> 256
        4 if deep => 3_000 + rng.below(27_000) as usize,
        4 => 300 + rng.below(2700) as usize,
        5 => 65_538 + rng.below(8) as usize, // always carries a count across 65 535 -> 65 536
        _ => 0, // 16M handled by caller
    }
}

pub fn gen_trace(rng: &mut Rng, cfg: &GenCfg, run: u64) -> Op {
    // boundary batches with very few, expensive runs visit their subjects in turn so that every
    // count-bearing table is carried across 65 536 in every run of the check, whatever the seed
    let drawn = *rng.pick(&cfg.subjects);
    let subject = if cfg.classes[5] > 0 && cfg.classes[..5].iter().all(|w| *w == 0) { cfg.subjects[(run % cfg.subjects.len() as u64) as usize] } else { drawn };
    let mut class = length_class(rng, &cfg.classes);
    let faults = cfg.faults;
    let mut r = root(rng, subject);
    use K::*;
    match subject {
        Xsdt | Mcfg | Madt | Srat | Hmat | Pptt | Rhct | Rimt | Viot | Cedt | Hest | Rqsc => {
            match subject {
                Madt => {
                    r.a.push(rng.below(2));
                    r.a.push(rng.val(32));
                }
                Rhct => r.a.push(rng.val(64)),
                _ => {}
            }
            // tables whose 64k-entry image stays affordable
            if class == 5 && !matches!(subject, Xsdt | Mcfg | Madt | Rhct | Hest | Rimt) {
                class = 3;
            }
            if class == 6 && !matches!(subject, Xsdt | Mcfg) {
                class = 3;
            }
            let mut n = n_for_class(rng, class, cfg.deep);
            if class == 6 {
                // cross 2^24 bytes: header + n * entry size
                n = if subject == Xsdt { (1 << 24) / 8 + 2 } else { (1 << 24) / 16 + 2 };
            }
            // long histories use mostly small entries; very large single entries only occur in short ones
            let cheap = class >= 3 && class != 4 || (class == 4 && rng.chance(1, 2)) || n > 200;
            let inject = faults && n <= 512;
            let mut h = HandleCounts::default();
            let mut ops = Vec::with_capacity(n);
            while ops.len() < n {
                if inject && rng.chance(1, 10) {
                    ops.push(Op::new(ObsAbort).a(&[rng.next() & 0xff_ffff]));
                    continue;
                }
                // the same entry again, exactly or with one thing changed: callers re-add identical
                // descriptions, and slips that merge, de-duplicate or cache by content need two alike
                let op = if !ops.is_empty() && !cheap && rng.chance(1, 7) {
                    let src: &Op = &ops[rng.below(ops.len() as u64) as usize];
                    if src.k == ObsAbort || src.k == MaImsic { gen_entry(rng, subject, &mut h, inject, cheap, cfg.oversize) } else { near_duplicate(rng, src) }
                } else {
                    gen_entry(rng, subject, &mut h, inject, cheap, cfg.oversize)
                };
                if subject == Viot {
                    // VIOT handles are 16-bit offsets: keep the image below 65536 bytes (beyond is C18's matter)
                    let l = if matches!(op.k, ViPciRange | ViMmioEp) { 24 } else { 16 };
                    if 48 + h.body + l > 65_000 {
                        break;
                    }
                    h.body += l;
                }
                ops.push(op);
            }
            r.s = ops;
        }
        Slit => {
            let n = match rng.below(10) {
                0 => 0,
                1 => 1,
                2 | 3 => 2 + rng.below(5),
                4 if cfg.deep => 1_000 + rng.below(25),
                4 => 16,
                5 => 255 + rng.below(3),
                6 => 100 + rng.below(201),
                _ => 2 + rng.below(30),
            };
            r.a.push(n);
            let cnt = match class {
                0 => 0,
                1 => 1 + rng.below(12),
                2 | 3 => 13 + rng.below(100),
                _ => 100 + rng.below(600),
            };
            let mode = rng.below(4);
            for _ in 0..cnt {
                if faults && rng.chance(1, 10) {
                    r.s.push(Op::new(ObsAbort).a(&[rng.next() & 0xff_ffff]));
                    continue;
                }
                let (mut a, mut b) = if n == 0 { (0, 0) } else { (rng.below(n), rng.below(n)) };
                match mode {
                    0 if n > 0 => b = a, // diagonal-heavy
                    1 if n > 0 => {
                        // hammer few cells (repeated writes, mirrored pairs)
                        a = rng.below(n.min(2));
                        b = rng.below(n.min(3));
                    }
                    _ => {}
                }
                if n == 0 || (faults && rng.chance(1, 10)) {
                    // out-of-range index: must be refused
                    if !faults {
                        break;
                    }
                    if rng.chance(1, 2) {
                        a = oor_index(rng, n);
                    } else {
                        b = oor_index(rng, n);
                    }
                }
                r.s.push(Op::new(SlSetDistance).a(&[a, b, rng.val(8)]));
            }
        }
        SysLocSubj => {
            let (i, t) = shape(rng);
            r.a.extend_from_slice(&[rng.below(4), rng.below(6), rng.below(12), rng.val(64), i, t]);
            let cnt = match class {
                0 => 0,
                1 => 1 + rng.below(12),
                _ => 13 + rng.below(150),
            };
            for _ in 0..cnt {
                if faults && rng.chance(1, 12) {
                    r.s.push(Op::new(ObsAbort).a(&[rng.next() & 0xffff]));
                    continue;
                }
                let oor = faults && rng.chance(1, 10);
                let o = match rng.below(8) {
                    0 => Op::new(LocNonSeq),
                    1 => Op::new(LocMinTransfer),
                    2 if i > 0 || oor => Op::new(LocSetInit).a(&[if oor { oor_list_index(rng, i) } else { rng.below(i) }, rng.val(32)]),
                    3 if t > 0 || oor => Op::new(LocSetTarget).a(&[if oor { oor_list_index(rng, t) } else { rng.below(t) }, rng.val(32)]),
                    _ => {
                        if (i == 0 || t == 0) && !oor {
                            continue;
                        }
                        let (mut a, mut b) = (if i > 0 { rng.below(i) } else { 0 }, if t > 0 { rng.below(t) } else { 0 });
                        if oor {
                            if rng.chance(1, 2) {
                                a = oor_index(rng, i)
                            } else {
                                b = oor_index(rng, t)
                            }
                        }
                        Op::new(LocSetEntry).a(&[a, b, rng.val(16)])
                    }
                };
                r.s.push(o);
            }
        }
        Tpm2 => {
            r.a.extend_from_slice(&[rng.below(2), rng.val(64), rng.below(7)]);
            if class != 0 {
                r.s.push(Op::new(TpSetLogArea).a(&[rng.val(32), rng.val(64)]));
                if faults {
                    for _ in 0..rng.below(3) {
                        if rng.chance(1, 2) {
                            r.s.push(Op::new(ObsAbort).a(&[rng.next() & 0xff]));
                        } else {
                            r.s.push(Op::new(TpSetLogArea).a(&[rng.val(32), rng.val(64)]));
                        }
                    }
                }
            }
        }
        TcpaServer => {
            let n = n_for_class(rng, class.min(2), false);
            let enumd = rng.val(8);
            for _ in 0..n {
                if faults && rng.chance(1, 10) {
                    r.s.push(Op::new(ObsAbort).a(&[rng.next() & 0xff]));
                    continue;
                }
                let o = match rng.below(9) {
                    0 => Op::new(TsLogArea).a(&[rng.val(64), rng.val(64)]),
                    1 => Op::new(TsActiveLow),
                    2 => Op::new(TsEdge),
                    3 => Op::new(TsSciGpe).a(&[enumd]),
                    4 => Op::new(TsGsi).a(&[rng.val(32)]),
                    5 => Op::new(TsPnp),
                    6 => {
                        let p = pci(rng, faults);
                        Op::new(TsPci).a(&[p[0] & 0xff, p[1], p[2], p[3]])
                    }
                    7 => Op::new(TsBase).a(&gas_args(rng)),
                    _ => Op::new(TsConfig).a(&gas_args(rng)),
                };
                r.s.push(o);
            }
        }
        TcpaClient | Bert => r.a.extend_from_slice(&[rng.val(32), rng.val(64)]),
        Rsdp => {
            r.a.push(rng.val(64));
            if cfg.pokes && class != 0 {
                for _ in 0..1 + rng.below(3) {
                    r.s.push(Op::new(RsdpPoke).a(&[rng.below(5), rng.val(32)]).b(&rng.bytes(6)));
                }
            }
        }
        Facs => {
            if cfg.pokes && class != 0 {
                for _ in 0..1 + rng.below(3) {
                    r.s.push(Op::new(FacsPoke).a(&[rng.below(6), rng.val(64)]));
                }
            }
        }
        Spcr => {}
        Fadt => {
            let n = n_for_class(rng, class.min(2), false);
            let profile = rng.below(9);
            let mode = rng.below(4);
            for _ in 0..n {
                if faults && rng.chance(1, 10) {
                    r.s.push(Op::new(ObsAbort).a(&[rng.next() & 0xff]));
                    continue;
                }
                let o = match if mode == 0 { 0 } else { rng.below(12) } {
                    0..=4 => Op::new(FaFlag).a(&[rng.below(25)]),
                    5 => Op::new(FaProfile).a(&[profile]),
                    6 => Op::new(if rng.chance(1, 2) { FaDsdt32 } else { FaDsdt64 }).a(&[rng.val(64)]),
                    7 => Op::new(if rng.chance(1, 2) { FaFw32 } else { FaFw64 }).a(&[rng.val(64)]),
                    8 => Op::new(FaAcpiEnable),
                    9 => Op::new(FaAcpiDisable),
                    10 => {
                        let g = gas_args(rng);
                        let f = rng.below(crate::exec::FADT_POKE_FIELDS);
                        // fields 0, 6, 7 are generic address structures (five arguments), the rest scalars
                        if matches!(f, 0 | 6 | 7) {
                            Op::new(FaPoke).a(&[f, g[0], g[1], g[2], g[3], g[4]])
                        } else {
                            Op::new(FaPoke).a(&[f, rng.val(64)])
                        }
                    }
                    _ => Op::new(FaGpe).a(&[rng.val(32), rng.val(32), rng.val(8), rng.val(8), rng.val(8)]),
                };
                r.s.push(o);
            }
            if (mode == 1) && n > 0 {
                // pairs / singletons of flags: the coverage measure for FADT's 22 single-bit flags
                r.s = vec![Op::new(FaFlag).a(&[rng.below(25)]), Op::new(FaFlag).a(&[rng.below(25)])];
                if rng.chance(1, 3) {
                    r.s.pop();
                }
            }
        }
        SdtSubj => {
            let len = match rng.below(10) {
                1 if cfg.deep => 200_000 + rng.below(100_000),
                // a table just below 64 KiB, so that a handful of appends carry the length across 65535 -> 65536
                0 if rng.chance(1, 6) => 65_480 + rng.below(56),
                0 => 36,
                1 => 37 + rng.below(8),
                2 => 4096,
                3 if faults => rng.below(36),
                4 => 36 + rng.below(4061),
                _ => 36 + rng.below(93),
            };
            r.a.extend_from_slice(&[len, rng.val(8)]);
            r.b.extend_from_slice(&rng.bytes(4));
            let n = match class {
                0 => 0,
                1 => 1 + rng.below(12),
                2 | 3 => 13 + rng.below(100),
                _ => 100 + rng.below(400),
            };
            let mut cur = len.max(36);
            let n_ops_small = n <= 12;
            for _ in 0..n {
                let w_of = |k: K| match k {
                    SdWrite8 => 1u64,
                    SdWrite16 => 2,
                    SdWrite32 => 4,
                    _ => 8,
                };
                let off = |rng: &mut Rng, cur: u64, w: u64| -> u64 {
                    match rng.below(14) {
                        0 => 0,
                        1 => 4,
                        2 => 9,
                        3 => 9u64.saturating_sub(rng.below(w)),
                        4 => cur.saturating_sub(w),
                        5 if faults => cur.saturating_sub(w) + 1,
                        6 if faults => cur,
                        7 if faults => u64::MAX - rng.below(9),
                        8 if faults => cur + rng.below(300),
                        9 => 4u64.saturating_sub(rng.below(w)),
                        10 => rng.below(36),
                        _ => rng.below(cur.saturating_sub(w) + 1),
                    }
                };
                let o = match rng.below(14) {
                    0 => {
                        cur += 1;
                        Op::new(SdAppend8).a(&[rng.val(8)])
                    }
                    1 => {
                        cur += 2;
                        Op::new(SdAppend16).a(&[rng.val(16)])
                    }
                    2 => {
                        cur += 4;
                        Op::new(SdAppend32).a(&[rng.val(32)])
                    }
                    3 => {
                        cur += 8;
                        Op::new(SdAppend64).a(&[rng.val(64)])
                    }
                    4 => {
                        // rarely a large, dense slice (KiB of high-valued bytes)
                        // and very rarely ~17-20 MiB of 0xff: the table's byte total passes 2^32
                        let n = if n_ops_small && rng.chance(1, 2500) { (17 << 20) + rng.below(3 << 20) as usize } else if rng.chance(1, 60) { 1_000 + rng.below(7_000) as usize } else { small_count(rng, 40) as usize };
                        cur += n as u64;
                        Op::new(SdAppendSlice).b(&dense(rng, n))
                    }
                    5 => Op::new(SdUpdateCksum),
                    6 => {
                        let n = small_count(rng, 24) as usize;
                        let data = rng.bytes(n);
                        let abort = if faults { rng.below(4) } else { 1 };
                        let k = rng.below(n as u64 + 1);
                        cur += if abort == 0 && n > 0 { k } else { n as u64 };
                        Op::new(SdSinkPush).a(&[rng.next(), abort, k]).b(&data)
                    }
                    7 => {
                        let n = if rng.chance(1, 40) && cur > 300 { 250 + rng.below((cur - 250).min(6_000)) } else { small_count(rng, 24) };
                        let o = off(rng, cur, n);
                        Op::new(SdWriteBytes).a(&[o]).b(&dense(rng, n as usize))
                    }
                    x => {
                        let k = [SdWrite8, SdWrite16, SdWrite32, SdWrite64][(x % 4) as usize];
                        let o = off(rng, cur, w_of(k));
                        Op::new(k).a(&[o, rng.val(64)])
                    }
                };
                r.s.push(o);
            }
        }
        CksumSubj => {
            let n = match class {
                0 => 0,
                1 => 1 + rng.below(12),
                2 | 3 => 13 + rng.below(200),
                _ => 300 + rng.below(1500),
            };
            let mode = rng.below(3);
            for _ in 0..n {
                let blen = |rng: &mut Rng| -> usize {
                    // very rarely tens of MiB in one call (wide accumulators folded only at the end)
                    if n < 40 && rng.chance(1, 4000) {
                        return (34 << 20) + rng.below(14 << 20) as usize;
                    }
                    match rng.below(12) {
                        0 => 0,
                        1 => 1,
                        2 => 255,
                        3 => 256,
                        4 => 257,
                        5 if n < 40 && cfg.deep => 1 << 20,
                        5 if n < 40 => 65_536,
                        _ => rng.below(40) as usize,
                    }
                };
                let o = match if mode == 0 { rng.below(2) } else { rng.below(8) } {
                    0 => Op::new(CkAdd).a(&[rng.below(256)]),
                    1 => Op::new(CkSub).a(&[rng.below(256)]),
                    2 => {
                        let l = blen(rng);
                        Op::new(CkAppend).b(&if l > (1 << 24) { vec![0xff; l] } else { rng.bytes(l) })
                    }
                    3 => {
                        let l = blen(rng);
                        Op::new(CkDelete).b(&if l > (1 << 24) { vec![0xff; l] } else { rng.bytes(l) })
                    }
                    4 | 5 => {
                        let l = blen(rng).min(300);
                        Op::new(CkSink).a(&[rng.next(), if faults { rng.below(4) } else { 1 }, rng.below(l as u64 + 1)]).b(&rng.bytes(l))
                    }
                    _ => Op::new(CkUndo),
                };
                r.s.push(o);
            }
        }
        AmlSubj => {
            let n = match class {
                0 => 0,
                1 => 1 + rng.below(6),
                _ => 6 + rng.below(20),
            };
            for _ in 0..n {
                if faults && rng.chance(1, 10) {
                    r.s.push(Op::new(ObsAbort).a(&[rng.next() & 0xffff]));
                    continue;
                }
                r.s.push(gen_aml(rng, 0, faults));
            }
        }
        _ => {}
    }
    r
}

fn gen_aml(rng: &mut Rng, depth: u32, faults: bool) -> Op {
    let sel = rng.below(amlgen::N_SELECTORS);
    let mut o = Op::new(K::AmObj).a(&[sel, rng.next() & 0xff, rng.next(), rng.val(64), rng.val(64), if faults { rng.below(5) } else { 1 }, rng.next() & 0xffff, rng.val(64), rng.val(64)]);
    let nb = match rng.below(6) {
        0 => 0,
        1 => 70 + rng.below(200) as usize,
        2 if depth == 0 => 4000 + rng.below(300) as usize,
        _ => rng.below(48) as usize,
    };
    o.b = rng.bytes(nb);
    let composite = matches!(sel, 11 | 12 | 13 | 14 | 16 | 24 | 25 | 26 | 28 | 29 | 30 | 31 | 34 | 38 | 39 | 40 | 41 | 42 | 43 | 44 | 45 | 46 | 49 | 56);
    if composite && depth < 3 {
        let n = match rng.below(4) {
            0 => 0,
            1 => 1 + rng.below(2),
            _ => 2 + rng.below(4),
        };
        for _ in 0..n {
            o.s.push(gen_aml(rng, depth + 1, faults));
        }
    }
    o
}
