//! Run context: which properties are evaluated, violations, coverage statistics, event digest.

use crate::op::K;
use std::collections::{BTreeMap, BTreeSet};

pub const P01: u32 = 1 << 1;
pub const P02: u32 = 1 << 2;
pub const P03: u32 = 1 << 3;
pub const P05: u32 = 1 << 5;
pub const P11: u32 = 1 << 11;
pub const P12: u32 = 1 << 12;
pub const P13: u32 = 1 << 13;
pub const P14: u32 = 1 << 14;
pub const P17: u32 = 1 << 17;
pub const PALL: u32 = P01 | P02 | P03 | P05 | P11 | P12 | P13 | P14 | P17;

pub fn prop_mask(id: &str) -> Option<u32> {
    Some(match id {
        "C01" => P01,
        "C02" => P02,
        "C03" => P03,
        "C05" => P05,
        "C11" => P11,
        "C12" => P12,
        "C13" => P13,
        "C14" => P14,
        "C17" => P17,
        _ => return None,
    })
}

pub fn prop_name(mask: u32) -> &'static str {
    match mask {
        P01 => "C01",
        P02 => "C02",
        P03 => "C03",
        P05 => "C05",
        P11 => "C11",
        P12 => "C12",
        P13 => "C13",
        P14 => "C14",
        P17 => "C17",
        _ => "C??",
    }
}

#[derive(Clone, Debug)]
pub struct Violation {
    pub prop: u32,
    pub inv: &'static str,
    pub subject: K,
    pub step: usize,
    pub detail: String,
}

#[derive(Clone, Debug, Default)]
pub struct Stats {
    /// named counters (probes, fault kinds fired, steps, observations...)
    pub n: BTreeMap<&'static str, u64>,
    /// named sets of small integers (coverage measures: pairs reached, subsets reached...)
    pub sets: BTreeMap<&'static str, BTreeSet<u64>>,
}

impl Stats {
    pub fn add(&mut self, k: &'static str, v: u64) {
        *self.n.entry(k).or_insert(0) += v;
    }
    pub fn cover(&mut self, k: &'static str, v: u64) {
        self.sets.entry(k).or_default().insert(v);
    }
    pub fn merge(&mut self, o: &Stats) {
        for (k, v) in &o.n {
            *self.n.entry(k).or_insert(0) += *v;
        }
        for (k, s) in &o.sets {
            let e = self.sets.entry(k).or_default();
            for x in s {
                e.insert(*x);
            }
        }
    }
    pub fn get(&self, k: &str) -> u64 {
        self.n.get(k).copied().unwrap_or(0)
    }
    pub fn set_len(&self, k: &str) -> u64 {
        self.sets.get(k).map(|s| s.len() as u64).unwrap_or(0)
    }
}

pub struct Cx {
    pub props: u32,
    pub subject: K,
    pub step: usize,
    pub viol: Vec<Violation>,
    pub st: Stats,
    pub digest: u64,
    /// the run ended early without a verdict (e.g. object left in an unspecified state by a refusal)
    pub stop: bool,
    /// collect coverage statistics (off while minimising)
    pub stats_on: bool,
}

impl Cx {
    pub fn new(props: u32, subject: K) -> Cx {
        Cx { props, subject, step: 0, viol: Vec::new(), st: Stats::default(), digest: 0xcbf2_9ce4_8422_2325, stop: false, stats_on: true }
    }
    pub fn on(&self, p: u32) -> bool {
        self.props & p != 0
    }
    pub fn fail(&mut self, prop: u32, inv: &'static str, detail: String) {
        if self.props & prop == 0 {
            return;
        }
        if self.viol.iter().any(|v| v.prop == prop && v.inv == inv) {
            return;
        }
        self.viol.push(Violation { prop, inv, subject: self.subject, step: self.step, detail });
    }
    pub fn probe(&mut self, k: &'static str) {
        if self.stats_on {
            self.st.add(k, 1);
        }
    }
    pub fn count(&mut self, k: &'static str, v: u64) {
        if self.stats_on {
            self.st.add(k, v);
        }
    }
    pub fn cover(&mut self, k: &'static str, v: u64) {
        if self.stats_on {
            self.st.cover(k, v);
        }
    }
    pub fn log_u64(&mut self, v: u64) {
        self.digest = (self.digest ^ v).wrapping_mul(0x100_0000_01b3);
        self.digest ^= self.digest >> 29;
    }
    pub fn log_bytes(&mut self, b: &[u8]) {
        let mut h = self.digest ^ (b.len() as u64);
        // 8 bytes at a time; this is an event digest, not a cryptographic hash
        let mut ch = b.chunks_exact(8);
        for c in &mut ch {
            let mut q = [0u8; 8];
            q.copy_from_slice(c);
            h = (h ^ u64::from_le_bytes(q)).wrapping_mul(0x100_0000_01b3);
            h ^= h >> 32;
        }
        for x in ch.remainder() {
            h = (h ^ *x as u64).wrapping_mul(0x100_0000_01b3);
        }
        self.digest = h;
    }
}
