//! Generic, self-describing operation tree. A whole simulated run (subject, constructor
//! arguments, every operation, fault and sub-builder call) is one `Op` tree; executing it
//! needs no PRNG. Every numeric argument is normalised by the executor (enum variants by
//! modulo, handle references by modulo over the handles minted so far), so *any* tree is
//! executable — which is what lets the minimiser delete and shrink freely.

use crate::json::{hex, unhex, J};

macro_rules! kinds {
    ($($name:ident),* $(,)?) => {
        #[derive(Clone, Copy, Debug, PartialEq, Eq, PartialOrd, Ord, Hash)]
        #[allow(clippy::upper_case_acronyms)]
        pub enum K { $($name),* }
        impl K {
            pub const ALL: &'static [K] = &[$(K::$name),*];
            pub fn name(self) -> &'static str {
                match self { $(K::$name => stringify!($name)),* }
            }
            pub fn from_name(s: &str) -> Option<K> {
                match s { $(stringify!($name) => Some(K::$name),)* _ => None }
            }
        }
    };
}

kinds! {
    // ---- subjects (root of a trace) ----
    Xsdt, Mcfg, Madt, Srat, Slit, Hmat, Pptt, Rhct, Rimt, Viot, Cedt, Hest, Rqsc,
    Tpm2, TcpaServer, TcpaClient, Fadt, Bert, Spcr, Rsdp, Facs, SdtSubj, CksumSubj, SysLocSubj, AmlSubj,
    // ---- generic ----
    ObsAbort,        // fault: observe through a sink that unwinds on byte a[0] mod len
    // ---- XSDT / MCFG ----
    XAddEntry, McAddEcam,
    // ---- MADT ----
    MaLapic, MaIoApic, MaGicc, MaGicd, MaGicMsi, MaGicr, MaGicIts, MaRintc, MaImsic, MaAplic, MaPlic, MaRawPair,
    GcPerfInt, GcMaintInt, GcSet,
    MsFrameId, MsBase, MsSpi,
    // ---- SRAT ----
    SrMemAff, SrGenInit, SrRintcAff,
    OptEnabled, OptHotplug, OptNonVolatile, OptArch, OptProxDomain,
    // ---- SLIT ----
    SlSetDistance,
    // ---- HMAT ----
    HmMemProx, HmSysLoc, HmMsc,
    LocNonSeq, LocMinTransfer, LocSetInit, LocSetTarget, LocSetEntry,
    MscHandle,
    // ---- PPTT ----
    PpProc, PpCache,
    PnPhysical, PnValid, PnThread, PnLeaf, PnIdentical, PnAddCache,
    CnNextLevel, CnSize, CnSets, CnAssoc, CnAlloc, CnType, CnPolicy, CnLineSize, CnId,
    // ---- RHCT ----
    RhIsa, RhMmu, RhCmo, RhHartInfo, HiCmo,
    // ---- RIMT ----
    RiIommu, RiRc, RiPlatform, RiWire, RiMap,
    // ---- VIOT ----
    ViPciRange, ViMmioEp, ViPciIommu, ViMmioIommu,
    // ---- CEDT ----
    CeChbs, CeCfmws, CeCxims, CeRdpas,
    WrType2, WrType3, WrVolatile, WrPersistent, WrFixed, CfTarget, CxXormap,
    // ---- HEST ----
    HeAerRoot, HeAerDev, HeAerBridge, HeGhes, HeGhesV2, HeSet,
    // ---- RQSC ----
    RqController, RqRes,
    // ---- TPM ----
    TpSetLogArea,
    TsLogArea, TsActiveLow, TsEdge, TsSciGpe, TsGsi, TsPnp, TsPci, TsBase, TsConfig,
    // ---- FADT ----
    FaFlag, FaProfile, FaDsdt32, FaDsdt64, FaFw32, FaFw64, FaAcpiEnable, FaAcpiDisable, FaGpe, FaPoke,
    // ---- direct writes to public fields of header-less structures (C14 batches only) ----
    RsdpPoke, FacsPoke,
    // ---- Sdt ----
    SdAppend8, SdAppend16, SdAppend32, SdAppend64, SdAppendSlice,
    SdWrite8, SdWrite16, SdWrite32, SdWrite64, SdWriteBytes, SdUpdateCksum, SdSinkPush,
    // ---- Checksum accumulator ----
    CkAdd, CkSub, CkAppend, CkDelete, CkSink, CkUndo,
    // ---- AML producers (used only as byte producers for the sink seam) ----
    AmObj,
}

#[derive(Clone, Debug, PartialEq)]
pub struct Op {
    pub k: K,
    pub a: Vec<u64>,
    pub b: Vec<u8>,
    pub s: Vec<Op>,
}

impl Op {
    pub fn new(k: K) -> Op {
        Op { k, a: Vec::new(), b: Vec::new(), s: Vec::new() }
    }
    pub fn a(mut self, a: &[u64]) -> Op {
        self.a.extend_from_slice(a);
        self
    }
    pub fn b(mut self, b: &[u8]) -> Op {
        self.b.extend_from_slice(b);
        self
    }
    pub fn s(mut self, s: Vec<Op>) -> Op {
        self.s = s;
        self
    }
    /// argument i, 0 if absent (so that shrinking by truncation is always legal)
    pub fn arg(&self, i: usize) -> u64 {
        self.a.get(i).copied().unwrap_or(0)
    }
    pub fn byte_at(&self, i: usize) -> u8 {
        self.b.get(i).copied().unwrap_or(0)
    }
    pub fn arr<const N: usize>(&self, off: usize) -> [u8; N] {
        let mut r = [0u8; N];
        for (i, x) in r.iter_mut().enumerate() {
            *x = self.byte_at(off + i);
        }
        r
    }

    pub fn to_json(&self) -> J {
        let mut o = J::obj().set("k", J::s(self.k.name()));
        if !self.a.is_empty() {
            o.put("a", J::A(self.a.iter().map(|x| J::U(*x)).collect()));
        }
        if !self.b.is_empty() {
            o.put("b", J::S(hex(&self.b)));
        }
        if !self.s.is_empty() {
            o.put("s", J::A(self.s.iter().map(|x| x.to_json()).collect()));
        }
        o
    }

    pub fn from_json(j: &J) -> Result<Op, String> {
        let k = j.get("k").and_then(|x| x.as_str()).ok_or("op without k")?;
        let k = K::from_name(k).ok_or_else(|| format!("unknown op kind {}", k))?;
        let mut op = Op::new(k);
        if let Some(a) = j.get("a").and_then(|x| x.as_arr()) {
            for x in a {
                op.a.push(x.as_u64().ok_or("bad arg")?);
            }
        }
        if let Some(b) = j.get("b").and_then(|x| x.as_str()) {
            op.b = unhex(b)?;
        }
        if let Some(s) = j.get("s").and_then(|x| x.as_arr()) {
            for x in s {
                op.s.push(Op::from_json(x)?);
            }
        }
        Ok(op)
    }

    /// number of nodes in the tree (used by the minimiser as the size measure)
    pub fn size(&self) -> usize {
        1 + self.s.iter().map(|x| x.size()).sum::<usize>()
    }

    /// short one-line rendering for evidence samples
    pub fn brief(&self) -> String {
        let mut s = String::from(self.k.name());
        if !self.a.is_empty() {
            s.push('(');
            for (i, x) in self.a.iter().enumerate() {
                if i > 0 {
                    s.push(',');
                }
                if *x > 0xffff {
                    s.push_str(&format!("{:#x}", x));
                } else {
                    s.push_str(&x.to_string());
                }
            }
            s.push(')');
        }
        if !self.b.is_empty() {
            s.push_str(&format!("<{}B>", self.b.len()));
        }
        if !self.s.is_empty() {
            s.push('[');
            for (i, x) in self.s.iter().enumerate() {
                if i > 0 {
                    s.push(' ');
                }
                if i >= 6 {
                    s.push_str(&format!("..+{}", self.s.len() - 6));
                    break;
                }
                s.push_str(&x.brief());
            }
            s.push(']');
        }
        s
    }
}
