//! acpisim — deterministic single-actor simulation of acpi_tables' stateful builders and of its
//! sink/producer seams, with fault injection. See /verif/DESIGN.md.

#![allow(dead_code)]

mod amlgen;
mod build;
mod compat;
mod cx;
mod exec;
mod gen;
mod json;
mod op;
mod optspec;
mod rng;
mod runner;
mod sinks;
mod spec;

use std::process::exit;

fn usage() -> ! {
    eprintln!("usage: acpisim check <C01|C02|C03|C05|C11|C12|C13|C14|C17> <quick|thorough> [--profile <name>] [--evidence <path>]");
    eprintln!("       acpisim replay <file>");
    eprintln!("       acpisim selftest determinism [runs]");
    eprintln!("       acpisim gen <prop> <batch-index> <run>");
    exit(2)
}

fn main() {
    let args: Vec<String> = std::env::args().collect();
    // harness errors (a panic outside an expected-fault window) must never look like a verdict
    let default_hook = std::panic::take_hook();
    drop(default_hook);
    sinks::quiet();
    let r = std::panic::catch_unwind(|| real_main(&args));
    match r {
        Ok(code) => exit(code),
        Err(p) => {
            let msg = p.downcast_ref::<String>().cloned().or_else(|| p.downcast_ref::<&str>().map(|s| s.to_string())).unwrap_or_else(|| "<non-string panic>".into());
            eprintln!("HARNESS-ERROR: {}", msg);
            exit(2)
        }
    }
}

fn real_main(args: &[String]) -> i32 {
    if args.len() < 2 {
        usage();
    }
    match args[1].as_str() {
        "check" => {
            if args.len() < 4 {
                usage();
            }
            let mut profile = "release".to_string();
            let mut evidence: Option<String> = None;
            let mut i = 4;
            while i < args.len() {
                match args[i].as_str() {
                    "--profile" => {
                        profile = args[i + 1].clone();
                        i += 2;
                    }
                    "--evidence" => {
                        evidence = Some(args[i + 1].clone());
                        i += 2;
                    }
                    _ => usage(),
                }
            }
            runner::check(&args[2], &args[3], &profile, evidence)
        }
        "replay" => {
            if args.len() < 3 {
                usage();
            }
            runner::replay(&args[2])
        }
        "selftest" => {
            let n = args.get(3).and_then(|x| x.parse().ok()).unwrap_or(2000u64);
            runner::selftest_determinism(n)
        }
        "gen" => {
            if args.len() < 5 {
                usage();
            }
            runner::print_trace(&args[2], args[3].parse().unwrap_or(0), args[4].parse().unwrap_or(0))
        }
        _ => usage(),
    }
}
