//! The seams the simulator owns: receiving sinks (`AmlSink`) and a scripted producer (`Aml`).
//! The `AmlSink` interface is infallible, so the only "write error" a sink can raise is an
//! unwind; `Aborting` does exactly that at a chosen byte.

use acpi_tables::{Aml, AmlSink};
use std::panic::{self, AssertUnwindSafe};

/// Implements only the mandatory method: every multi-byte value arrives via the crate's defaults.
#[derive(Default)]
pub struct ByteOnly(pub Vec<u8>);
impl AmlSink for ByteOnly {
    fn byte(&mut self, byte: u8) {
        self.0.push(byte);
    }
}

/// Overrides every entry point with its own little-endian splitting and records the calls.
#[derive(Default)]
pub struct AllOverride {
    pub out: Vec<u8>,
    /// calls per entry point: byte, word, dword, qword, vec
    pub calls: [u64; 5],
}
impl AmlSink for AllOverride {
    fn byte(&mut self, byte: u8) {
        self.calls[0] += 1;
        self.out.push(byte);
    }
    fn word(&mut self, w: u16) {
        self.calls[1] += 1;
        self.out.push((w & 0xff) as u8);
        self.out.push((w >> 8) as u8);
    }
    fn dword(&mut self, d: u32) {
        self.calls[2] += 1;
        for i in 0..4 {
            self.out.push(((d >> (8 * i)) & 0xff) as u8);
        }
    }
    fn qword(&mut self, q: u64) {
        self.calls[3] += 1;
        for i in 0..8 {
            self.out.push(((q >> (8 * i)) & 0xff) as u8);
        }
    }
    fn vec(&mut self, v: &[u8]) {
        self.calls[4] += 1;
        self.out.extend_from_slice(v);
    }
}

/// Sinks that override exactly one (or two) of the optional entry points, so that the crate's
/// defaults for the others are exercised in every combination a caller's sink might present.
macro_rules! partial_sink {
    ($name:ident, $($m:ident : $t:ty),*) => {
        #[derive(Default)]
        pub struct $name(pub Vec<u8>);
        impl AmlSink for $name {
            fn byte(&mut self, byte: u8) {
                self.0.push(byte);
            }
            $(fn $m(&mut self, x: $t) {
                push_le(&mut self.0, x);
            })*
        }
    };
}
trait Le {
    fn put(self, out: &mut Vec<u8>);
}
impl Le for u16 {
    fn put(self, out: &mut Vec<u8>) {
        out.extend_from_slice(&self.to_le_bytes())
    }
}
impl Le for u32 {
    fn put(self, out: &mut Vec<u8>) {
        out.extend_from_slice(&self.to_le_bytes())
    }
}
impl Le for u64 {
    fn put(self, out: &mut Vec<u8>) {
        out.extend_from_slice(&self.to_le_bytes())
    }
}
impl Le for &[u8] {
    fn put(self, out: &mut Vec<u8>) {
        out.extend_from_slice(self)
    }
}
fn push_le<T: Le>(out: &mut Vec<u8>, x: T) {
    x.put(out)
}
partial_sink!(OnlyVec, vec: &[u8]);
partial_sink!(OnlyWord, word: u16);
partial_sink!(OnlyDword, dword: u32);
partial_sink!(OnlyQword, qword: u64);
partial_sink!(WordQword, word: u16, qword: u64);
partial_sink!(VecDword, vec: &[u8], dword: u32);

/// Payload of an injected sink failure.
pub struct SinkAbort;
/// Payload of an injected producer failure.
pub struct ProducerAbort;

/// Unwinds when asked to accept byte number `k` (0-based): exactly `k` bytes are delivered.
pub struct Aborting {
    pub out: Vec<u8>,
    pub k: usize,
}
impl AmlSink for Aborting {
    fn byte(&mut self, byte: u8) {
        if self.out.len() >= self.k {
            panic::panic_any(SinkAbort);
        }
        self.out.push(byte);
    }
}

/// A caller-implemented producer: pushes `data` through a scripted mix of the five sink entry
/// points and may unwind after `abort_after` bytes.
pub struct Scripted<'a> {
    pub data: &'a [u8],
    pub script: u64,
    pub abort_after: Option<usize>,
}
impl Aml for Scripted<'_> {
    fn to_aml_bytes(&self, sink: &mut dyn AmlSink) {
        let end = self.abort_after.map(|k| k.min(self.data.len())).unwrap_or(self.data.len());
        let d = &self.data[..end];
        let mut p = 0usize;
        let mut s = self.script | 1;
        while p < d.len() {
            s = s.wrapping_mul(6364136223846793005).wrapping_add(1442695040888963407);
            let rem = d.len() - p;
            match (s >> 33) % 6 {
                1 if rem >= 2 => {
                    sink.word(u16::from_le_bytes([d[p], d[p + 1]]));
                    p += 2;
                }
                2 if rem >= 4 => {
                    sink.dword(u32::from_le_bytes([d[p], d[p + 1], d[p + 2], d[p + 3]]));
                    p += 4;
                }
                3 if rem >= 8 => {
                    let mut q = [0u8; 8];
                    q.copy_from_slice(&d[p..p + 8]);
                    sink.qword(u64::from_le_bytes(q));
                    p += 8;
                }
                4 => {
                    let n = (((s >> 40) % 9) as usize).min(rem);
                    sink.vec(&d[p..p + n]); // includes empty slices
                    p += n;
                }
                5 => {
                    sink.vec(&d[p..]);
                    p = d.len();
                }
                _ => {
                    sink.byte(d[p]);
                    p += 1;
                }
            }
        }
        if self.abort_after.is_some() {
            panic::panic_any(ProducerAbort);
        }
    }
}

#[derive(Debug, Clone, PartialEq)]
pub enum Caught {
    SinkAbort,
    ProducerAbort,
    /// an unwind raised by acpi_tables itself (assert!, index, arithmetic overflow): a refusal
    Refusal(String),
}

/// Run `f`, converting an unwind into a value. The global panic hook is silent (see `quiet`).
pub fn catch<R>(f: impl FnOnce() -> R) -> Result<R, Caught> {
    match panic::catch_unwind(AssertUnwindSafe(f)) {
        Ok(r) => Ok(r),
        Err(p) => {
            if p.is::<SinkAbort>() {
                Err(Caught::SinkAbort)
            } else if p.is::<ProducerAbort>() {
                Err(Caught::ProducerAbort)
            } else if let Some(s) = p.downcast_ref::<&str>() {
                Err(Caught::Refusal((*s).to_string()))
            } else if let Some(s) = p.downcast_ref::<String>() {
                Err(Caught::Refusal(s.clone()))
            } else {
                Err(Caught::Refusal("<non-string panic>".into()))
            }
        }
    }
}

pub fn quiet() {
    panic::set_hook(Box::new(|_| {}));
}

/// Serialise through the crate's Vec sink.
pub fn to_vec(a: &dyn Aml) -> Vec<u8> {
    let mut v = Vec::new();
    a.to_aml_bytes(&mut v);
    v
}

pub fn sum8(b: &[u8]) -> u8 {
    b.iter().fold(0u8, |a, x| a.wrapping_add(*x))
}

pub fn le16(b: &[u8], off: usize) -> Option<u32> {
    b.get(off..off + 2).map(|x| u16::from_le_bytes([x[0], x[1]]) as u32)
}
pub fn le32(b: &[u8], off: usize) -> Option<u32> {
    b.get(off..off + 4).map(|x| u32::from_le_bytes([x[0], x[1], x[2], x[3]]))
}
pub fn le64(b: &[u8], off: usize) -> Option<u64> {
    b.get(off..off + 8).map(|x| {
        let mut q = [0u8; 8];
        q.copy_from_slice(x);
        u64::from_le_bytes(q)
    })
}
