//! The simulator proper: drives one subject object through one history (an `Op` tree), observing
//! through simulator-owned sinks after every step and evaluating the invariants of the selected
//! properties. All acpi_tables code executed here is the real crate.

use crate::build::{self, Built, BuiltEntry, Handles, RefF};
use crate::cx::*;
use crate::op::{Op, K};
use crate::optspec;
use crate::rng::mix;
use crate::sinks::*;
use crate::spec::{self, Extent};
use acpi_tables::*;
use zerocopy::IntoBytes;

pub struct RunResult {
    pub viol: Vec<Violation>,
    pub st: Stats,
    pub digest: u64,
}

pub struct Applied {
    /// the operation was refused (unwound) by the crate
    pub refused: bool,
    /// a refusal is what the model expects for this operation
    pub refusal_expected: bool,
}

impl Applied {
    fn ok() -> Applied {
        Applied { refused: false, refusal_expected: false }
    }
}

pub trait Subject {
    fn serialize(&self, sink: &mut dyn AmlSink);
    fn apply(&mut self, op: &Op, cx: &mut Cx) -> Applied;
    /// subject-specific invariants on a delivered image
    fn check(&self, img: &[u8], cx: &mut Cx);
    /// model view of (byte length, entry count) for carry detection
    fn sizes(&self) -> (u64, u64) {
        (0, 0)
    }
    fn checksummed(&self) -> bool {
        true
    }
    /// raw in-memory form, for subjects that have one
    fn raw(&self) -> Option<Vec<u8>> {
        None
    }
    /// how the declared length is stated: (offset of LE32 length field)
    fn length_field(&self) -> Option<usize> {
        Some(4)
    }
    /// the image delivered by the most recent observation (None if the last step was not observed);
    /// used to tell whether a refused operation left the object unchanged
    fn set_last(&mut self, _img: Option<&[u8]>) {}
}

struct AsAml<'a>(&'a dyn Subject);
impl Aml for AsAml<'_> {
    fn to_aml_bytes(&self, sink: &mut dyn AmlSink) {
        self.0.serialize(sink)
    }
}

// ------------------------------------------------------------------------------------------
// generic helpers
// ------------------------------------------------------------------------------------------

fn oem(op: &Op) -> ([u8; 6], [u8; 8], u32) {
    (op.arr::<6>(0), op.arr::<8>(6), op.arg(0) as u32)
}

pub const SINK_KINDS: u64 = 5;
pub const SDT_SINK_MAX: usize = 4096;

/// Serialise `a` through sink kind `which`, returning the delivered byte stream.
fn deliver(a: &dyn Aml, which: u64, cx: &mut Cx) -> Result<Vec<u8>, Caught> {
    // kind 4 comes in two flavours (which = 4 and which = 12): PackageBuilder::new() / ::default()
    match (which & 7) % SINK_KINDS {
        0 => catch(|| to_vec(a)),
        1 => catch(|| {
            let mut s = ByteOnly::default();
            a.to_aml_bytes(&mut s);
            s.0
        }),
        2 => {
            let r = catch(|| {
                let mut s = AllOverride::default();
                a.to_aml_bytes(&mut s);
                s
            })?;
            cx.count("sink.alloverride.byte_calls", r.calls[0]);
            cx.count("sink.alloverride.word_calls", r.calls[1]);
            cx.count("sink.alloverride.dword_calls", r.calls[2]);
            cx.count("sink.alloverride.qword_calls", r.calls[3]);
            cx.count("sink.alloverride.vec_calls", r.calls[4]);
            Ok(r.out)
        }
        3 => catch(|| {
            // the crate's generic table used as the receiving sink: payload follows its 36-byte header
            let mut s = sdt::Sdt::new(*b"SINK", 36, 1, *b"VERIF_", *b"SINKSINK", 1);
            a.to_aml_bytes(&mut s);
            s.as_slice()[36..].to_vec()
        }),
        _ => catch(|| {
            // the crate's package builder used as the receiving sink
            // either public way of making one
            let mut pb = if which & 8 == 0 { aml::PackageBuilder::new() } else { aml::PackageBuilder::default() };
            a.to_aml_bytes(&mut pb);
            let all = to_vec(&pb);
            // PackageOp, PkgLength (1..4 bytes by its own lead byte), element count, then the stream
            let follow = (all[1] >> 6) as usize;
            all[1 + 1 + follow + 1..].to_vec()
        }),
    }
}

/// C14 on one object: every sink kind, repeated serialisation, checksum sink, u8sum, raw form.
pub fn c14_object(a: &dyn Aml, raw: Option<&[u8]>, reference: &[u8], what: K, cx: &mut Cx) {
    if !cx.on(P14) {
        return;
    }
    // the generic table used as a sink recomputes its checksum per byte (quadratic by design), so it
    // only receives objects up to SDT_SINK_MAX bytes; very large images skip the package builder too
    let kinds: &[u64] = if reference.len() > (1 << 20) {
        &[0, 1, 2]
    } else if reference.len() > SDT_SINK_MAX {
        &[0, 1, 2, 4, 12]
    } else {
        &[0, 1, 2, 3, 4, 12]
    };
    for &w in kinds {
        cx.cover("c14.object_sink_pairs", (what as u64) << 8 | w);
        match deliver(a, w, cx) {
            Ok(b) => {
                if b != reference {
                    let at = b.iter().zip(reference.iter()).position(|(x, y)| x != y).unwrap_or(b.len().min(reference.len()));
                    cx.fail(P14, "sink_independent", format!("{} delivered through sink kind {} differs from the reference stream at byte {} (len {} vs {})", what.name(), w, at, b.len(), reference.len()));
                }
            }
            Err(e) => cx.fail(P14, "sink_independent", format!("{} refused to serialise into sink kind {}: {:?}", what.name(), w, e)),
        }
    }
    // sinks overriding only some of the optional entry points (one drawn per object)
    {
        let pick = mix(reference.len() as u64, sum8(reference) as u64 ^ (what as u64) << 8) % 6;
        cx.cover("c14.partial_override_sinks", pick);
        let r = catch(|| match pick {
            0 => {
                let mut k = OnlyVec::default();
                a.to_aml_bytes(&mut k);
                k.0
            }
            1 => {
                let mut k = OnlyWord::default();
                a.to_aml_bytes(&mut k);
                k.0
            }
            2 => {
                let mut k = OnlyDword::default();
                a.to_aml_bytes(&mut k);
                k.0
            }
            3 => {
                let mut k = OnlyQword::default();
                a.to_aml_bytes(&mut k);
                k.0
            }
            4 => {
                let mut k = WordQword::default();
                a.to_aml_bytes(&mut k);
                k.0
            }
            _ => {
                let mut k = VecDword::default();
                a.to_aml_bytes(&mut k);
                k.0
            }
        });
        match r {
            Ok(b) if b == reference => {}
            Ok(b) => cx.fail(P14, "sink_independent", format!("{} delivered through a sink overriding only some entry points (variant {}) differs from the reference stream (len {} vs {})", what.name(), pick, b.len(), reference.len())),
            Err(e) => cx.fail(P14, "sink_independent", format!("{} refused to serialise into a partially overriding sink: {:?}", what.name(), e)),
        }
    }
    // repeated serialisation into the same kind of sink
    if let (Ok(b1), Ok(b2)) = (catch(|| to_vec(a)), catch(|| to_vec(a))) {
        if b1 != b2 {
            cx.fail(P14, "repeatable", format!("{} serialised twice into the vector sink gives different streams (len {} vs {})", what.name(), b1.len(), b2.len()));
        }
    }
    // the crate's own stateful sinks must end in the same state however the stream was chunked:
    // compare with the same sink fed the reference stream one byte at a time
    if reference.len() <= 640 {
        if let Ok((direct, bytewise)) = catch(|| {
            let mut s1 = sdt::Sdt::new(*b"SINK", 36, 1, *b"VERIF_", *b"SINKSINK", 1);
            a.to_aml_bytes(&mut s1);
            let mut s2 = sdt::Sdt::new(*b"SINK", 36, 1, *b"VERIF_", *b"SINKSINK", 1);
            for b in reference {
                AmlSink::byte(&mut s2, *b);
            }
            (s1.as_slice().to_vec(), s2.as_slice().to_vec())
        }) {
            if direct != bytewise {
                let at = direct.iter().zip(bytewise.iter()).position(|(x, y)| x != y).unwrap_or(direct.len().min(bytewise.len()));
                cx.fail(P14, "sink_state_independent_of_chunking", format!("{}: the generic table used as sink ends up different (first at offset {}) from the same table fed the same {} bytes one at a time", what.name(), at, reference.len()));
            }
        }
    }
    if reference.len() <= (1 << 20) {
        if let Ok((direct, bytewise)) = catch(|| {
            let mut p1 = aml::PackageBuilder::default();
            a.to_aml_bytes(&mut p1);
            let mut p2 = aml::PackageBuilder::new();
            for b in reference {
                AmlSink::byte(&mut p2, *b);
            }
            (to_vec(&p1), to_vec(&p2))
        }) {
            if direct != bytewise {
                cx.fail(P14, "sink_state_independent_of_chunking", format!("{}: the package builder used as sink serialises differently from one fed the same {} bytes one at a time", what.name(), reference.len()));
            }
        }
    }
    // checksum sink and the byte-sum helper
    let want = sum8(reference);
    if let Ok(raw_sum) = catch(|| {
        let mut c = Checksum::default();
        a.to_aml_bytes(&mut c);
        c.raw_value()
    }) {
        if raw_sum != want {
            cx.fail(P14, "checksum_sink", format!("{}: Checksum used as sink reports {} but the bytes sum to {}", what.name(), raw_sum, want));
        }
    }
    if let Ok(s) = catch(|| u8sum(a)) {
        if s != want {
            cx.fail(P14, "u8sum", format!("{}: u8sum reports {} but the serialised bytes sum to {}", what.name(), s, want));
        }
    }
    if let Some(r) = raw {
        cx.probe("c14.raw_form_compared");
        if r != reference {
            cx.fail(P14, "raw_equals_serialised", format!("{}: raw in-memory form ({} bytes) differs from the serialised form ({} bytes)", what.name(), r.len(), reference.len()));
        }
    }
}

/// Inject a sink failure at byte k of the object's stream: delivered prefix must be the first k
/// reference bytes and a following complete serialisation must be unaffected.
pub fn c14_abort(a: &dyn Aml, reference: &[u8], k: usize, what: K, cx: &mut Cx) {
    if reference.is_empty() {
        return;
    }
    let k = k % reference.len();
    let mut s = Aborting { out: Vec::new(), k };
    let r = catch(|| a.to_aml_bytes(&mut s));
    cx.probe("fault.sink_abort.fired");
    let region = if k < 36 { 0 } else if k + 1 == reference.len() { 3 } else if k < 36 + (reference.len() - 36) / 2 { 1 } else { 2 };
    cx.cover("c14.abort_regions", region);
    match r {
        Err(Caught::SinkAbort) => {}
        Ok(()) => cx.fail(P14, "abort_prefix", format!("{}: sink failing at byte {} of {} was never asked to take that byte", what.name(), k, reference.len())),
        Err(e) => cx.fail(P14, "abort_prefix", format!("{}: unexpected unwind {:?} while serialising into a failing sink", what.name(), e)),
    }
    if s.out != reference[..k] {
        cx.fail(P14, "abort_prefix", format!("{}: {} bytes delivered before the sink failed at {}, not the first {} reference bytes", what.name(), s.out.len(), k, k));
    }
    match catch(|| to_vec(a)) {
        Ok(b) if b == reference => {}
        Ok(b) => cx.fail(P14, "abort_residue", format!("{}: serialisation after an aborted attempt differs (len {} vs {})", what.name(), b.len(), reference.len())),
        Err(e) => cx.fail(P14, "abort_residue", format!("{}: serialisation after an aborted attempt unwound: {:?}", what.name(), e)),
    }
}

/// C11 on one option-bearing structure: (a) expected field values from the option model,
/// (b) model-free independence: removing all calls of one option changes only what it governs.
fn c11_struct(op: &Op, bytes: &[u8], rebuild: &dyn Fn(&Op) -> Option<Vec<u8>>, cx: &mut Cx) {
    if !cx.on(P11) {
        return;
    }
    let exp = optspec::expected_fields(op);
    if exp.is_empty() && op.s.is_empty() {
        return;
    }
    cx.probe("c11.structures_checked");
    for f in &exp {
        match spec::rd(bytes, f.off, f.width.min(8)) {
            Some(got) => {
                let m = f.mask & if f.width >= 8 { u64::MAX } else { (1u64 << (8 * f.width)) - 1 };
                if got & m != f.value & m {
                    cx.fail(P11, "option_bits", format!("{}: {} @{} is {:#x}, the invoked options call for {:#x} [{}]", op.k.name(), f.what, f.off, got & m, f.value & m, op.brief()));
                }
            }
            None => cx.fail(P11, "option_bits", format!("{}: {} @{} lies outside the {}-byte structure", op.k.name(), f.what, f.off, bytes.len())),
        }
    }
    // coverage: which option subset of this structure kind was exercised
    let mut ids: Vec<(K, u64)> = op.s.iter().filter(|o| optspec::governed(op, o).is_some()).map(|o| optspec::opt_id(op.k, o)).collect();
    ids.sort();
    ids.dedup();
    let mut subset = 0u64;
    for (k, d) in &ids {
        subset ^= mix(*k as u64, *d);
    }
    cx.cover("c11.option_subsets", mix(op.k as u64, subset));
    cx.cover(c11_subset_key(op.k), subset);
    if op.k == K::Fadt {
        // the stated measure for FADT's flags: every single flag and every pair of flags co-invoked
        let mut fl: Vec<u64> = op.s.iter().filter(|o| o.k == K::FaFlag).map(|o| o.arg(0) % 25).collect();
        fl.sort();
        fl.dedup();
        for (i, a) in fl.iter().enumerate() {
            cx.cover("c11.fadt_flags_invoked", *a);
            for b in &fl[i + 1..] {
                cx.cover("c11.fadt_flag_pairs_coinvoked", a * 25 + b);
            }
        }
    }
    if op.s.windows(2).any(|w| optspec::opt_id(op.k, &w[0]) > optspec::opt_id(op.k, &w[1])) {
        cx.probe("c11.non_canonical_order");
    }
    if ids.len() < op.s.iter().filter(|o| optspec::governed(op, o).is_some()).count() {
        cx.probe("c11.repeated_option");
    }
    // (b) independence
    for id in ids.iter().take(8) {
        let rep = op.s.iter().find(|o| optspec::opt_id(op.k, o) == *id).unwrap();
        let gov = match optspec::governed(op, rep) {
            Some(g) => g,
            None => continue,
        };
        let mut without = op.clone();
        without.s.retain(|o| optspec::opt_id(op.k, o) != *id);
        let other = match rebuild(&without) {
            Some(b) => b,
            None => continue,
        };
        cx.probe("c11.independence_pairs");
        if other.len() != bytes.len() {
            cx.fail(P11, "option_independent", format!("{}: removing option {} changes the structure size ({} vs {})", op.k.name(), rep.k.name(), other.len(), bytes.len()));
            continue;
        }
        for (i, (x, y)) in bytes.iter().zip(other.iter()).enumerate() {
            if x != y && !gov.iter().any(|(o, l)| i >= *o && i < *o + *l) {
                cx.fail(P11, "option_independent", format!("{}: option {} changes byte {} ({:#x} vs {:#x}), outside the field(s) it governs {:?} [{}]", op.k.name(), rep.k.name(), i, x, y, gov, op.brief()));
                break;
            }
        }
        if optspec::must_differ(op, rep) && other == bytes {
            cx.fail(P11, "option_distinguishable", format!("{}: invoking option {} leaves the emitted bytes unchanged [{}]", op.k.name(), rep.k.name(), op.brief()));
        }
    }
}

/// per-structure coverage set: distinct option subsets (by option identity) exercised
fn c11_subset_key(k: K) -> &'static str {
    match k {
        K::MaGicc => "c11.subsets.madt_gicc",
        K::MaGicMsi => "c11.subsets.madt_gic_msi_frame",
        K::SrMemAff => "c11.subsets.srat_memory_affinity",
        K::SrGenInit => "c11.subsets.srat_generic_initiator",
        K::SrRintcAff => "c11.subsets.srat_rintc_affinity",
        K::PpProc => "c11.subsets.pptt_processor",
        K::PpCache => "c11.subsets.pptt_cache",
        K::CeCfmws => "c11.subsets.cedt_cfmws",
        K::HmSysLoc | K::SysLocSubj => "c11.subsets.hmat_sllbi",
        K::TcpaServer => "c11.subsets.tcpa_server",
        K::Fadt => "c11.subsets.fadt",
        K::HeAerRoot | K::HeAerDev | K::HeAerBridge | K::HeGhes | K::HeGhesV2 => "c11.subsets.hest",
        _ => "c11.subsets.other",
    }
}

// ------------------------------------------------------------------------------------------
// table subjects with entry bodies
// ------------------------------------------------------------------------------------------

pub struct Ent {
    pub kind: K,
    pub tcode: u32,
    pub bytes: Vec<u8>,
    pub hclass: u8,
    pub hraw: u32,
    pub refs: Vec<RefF>,
    pub subn: u32,
    pub aux: u64,
    /// for HMAT system-locality entries: the matrix model (C12)
    pub matrix: Option<Vec<u16>>,
}

enum Tab {
    Xsdt(xsdt::XSDT),
    Mcfg(mcfg::MCFG),
    Madt(madt::MADT),
    Srat(srat::SRAT),
    Hmat(hmat::HMAT),
    Pptt(pptt::PPTT),
    Rhct(rhct::RHCT),
    Rimt(rimt::RIMT),
    Viot(viot::VIOT),
    Cedt(cedt::CEDT),
    Hest(hest::HEST),
    Rqsc(rqsc::RQSC),
}

pub struct TableSubj {
    subject: K,
    tab: Tab,
    ents: Vec<Ent>,
    h: Handles,
    body: u64,
    has_imsic: bool,
    last_img: Option<Vec<u8>>,
    /// C11 only: the same table built from the same history with every entry's option calls
    /// de-duplicated and put in canonical order. "In any order and any number of times" means the
    /// two tables must serialise identically — including everything derived from the entries
    /// (checksum, length), which is where a non-idempotent option shows up.
    shadow: Option<Box<TableSubj>>,
}

/// Remove exact repeats of option calls (keeping the last of each) and move argument-less options
/// to the front in a fixed order. Sub-element adders and value-carrying calls keep their order.
pub fn canonical_options(op: &Op) -> Op {
    let mut o = op.clone();
    let is_bool = |k: K| {
        use K::*;
        matches!(k, OptEnabled | OptHotplug | OptNonVolatile | OptArch | PnPhysical | PnValid | PnThread | PnLeaf | PnIdentical | WrType2 | WrType3 | WrVolatile | WrPersistent | WrFixed | LocNonSeq | LocMinTransfer
            | TsActiveLow | TsEdge | TsPnp | FaAcpiEnable | FaAcpiDisable)
    };
    let is_setter = |k: K| {
        use K::*;
        matches!(k, OptProxDomain | CnSize | CnSets | CnAssoc | CnAlloc | CnType | CnPolicy | CnLineSize | CnId | GcSet | MsFrameId | MsBase | MsSpi | HeSet | LocSetInit | LocSetTarget | LocSetEntry
            | TsLogArea | TsSciGpe | TsGsi | TsPci | TsBase | TsConfig | FaFlag | FaProfile | FaGpe | FaPoke)
    };
    // exact repeats: keep the last occurrence
    let mut keep = vec![true; o.s.len()];
    for i in 0..o.s.len() {
        if (is_bool(o.s[i].k) || is_setter(o.s[i].k)) && o.s[i + 1..].iter().any(|later| *later == o.s[i]) {
            keep[i] = false;
        }
    }
    let mut it = keep.iter();
    o.s.retain(|_| *it.next().unwrap());
    // argument-less options first, in kind order (they only ever or a bit in)
    // (FaAcpiEnable/FaAcpiDisable assign two bytes each: they are not reordered)
    let movable = |k: K| is_bool(k) && !matches!(k, K::FaAcpiEnable | K::FaAcpiDisable);
    let mut bools: Vec<Op> = o.s.iter().filter(|c| movable(c.k)).cloned().collect();
    bools.sort_by_key(|c| c.k);
    let rest: Vec<Op> = o.s.iter().filter(|c| !movable(c.k)).cloned().collect();
    o.s = bools;
    o.s.extend(rest);
    o
}

impl TableSubj {
    fn new(root: &Op) -> TableSubj {
        let (a, b, c) = oem(root);
        let tab = match root.k {
            K::Xsdt => Tab::Xsdt(xsdt::XSDT::new(a, b, c)),
            K::Mcfg => Tab::Mcfg(mcfg::MCFG::new(a, b, c)),
            K::Madt => Tab::Madt(madt::MADT::new(
                a,
                b,
                c,
                if root.arg(2) % 2 == 0 { madt::LocalInterruptController::Riscv } else { madt::LocalInterruptController::Address(root.arg(3) as u32) },
            )),
            K::Srat => Tab::Srat(srat::SRAT::new(a, b, c)),
            K::Hmat => Tab::Hmat(hmat::HMAT::new(a, b, c)),
            K::Pptt => Tab::Pptt(pptt::PPTT::new(a, b, c)),
            K::Rhct => Tab::Rhct(rhct::RHCT::new(a, b, c, root.arg(2))),
            K::Rimt => Tab::Rimt(rimt::RIMT::new(a, b, c)),
            K::Viot => Tab::Viot(viot::VIOT::new(a, b, c)),
            K::Cedt => Tab::Cedt(cedt::CEDT::new(a, b, c)),
            K::Hest => Tab::Hest(hest::HEST::new(a, b, c)),
            K::Rqsc => Tab::Rqsc(rqsc::RQSC::new(a, b, c)),
            _ => unreachable!(),
        };
        TableSubj { subject: root.k, tab, ents: Vec::new(), h: Handles::default(), body: 0, has_imsic: false, last_img: None, shadow: None }
    }

    fn with_shadow(root: &Op) -> TableSubj {
        let mut t = TableSubj::new(root);
        if matches!(root.k, K::Madt | K::Srat | K::Pptt | K::Cedt | K::Hmat | K::Hest) {
            t.shadow = Some(Box::new(TableSubj::new(root)));
        }
        t
    }

    fn aml(&self) -> &dyn Aml {
        match &self.tab {
            Tab::Xsdt(t) => t,
            Tab::Mcfg(t) => t,
            Tab::Madt(t) => t,
            Tab::Srat(t) => t,
            Tab::Hmat(t) => t,
            Tab::Pptt(t) => t,
            Tab::Rhct(t) => t,
            Tab::Rimt(t) => t,
            Tab::Viot(t) => t,
            Tab::Cedt(t) => t,
            Tab::Hest(t) => t,
            Tab::Rqsc(t) => t,
        }
    }

    /// move the built entry into the real table; returns (handle class, raw handle)
    fn add(&mut self, be: Built, idx: usize) -> (u8, u32) {
        use build::*;
        match (&mut self.tab, be) {
            (Tab::Xsdt(t), Built::U64(v)) => t.add_entry(v),
            (Tab::Mcfg(t), Built::Ecam(a, b, c, d)) => t.add_ecam(a, b, c, d),
            (Tab::Madt(t), Built::RawPair(x)) => t.add_structure(x),
            (Tab::Madt(t), Built::Lapic(x)) => t.add_structure(x),
            (Tab::Madt(t), Built::IoApic(x)) => t.add_structure(x),
            (Tab::Madt(t), Built::Gicc(x)) => t.add_structure(x),
            (Tab::Madt(t), Built::Gicd(x)) => t.add_structure(x),
            (Tab::Madt(t), Built::GicMsi(x)) => t.add_structure(x),
            (Tab::Madt(t), Built::Gicr(x)) => t.add_structure(x),
            (Tab::Madt(t), Built::GicIts(x)) => t.add_structure(x),
            (Tab::Madt(t), Built::Rintc(x)) => t.add_structure(x),
            (Tab::Madt(t), Built::Imsic(x)) => t.add_imsic(x),
            (Tab::Madt(t), Built::Aplic(x)) => t.add_structure(x),
            (Tab::Madt(t), Built::Plic(x)) => t.add_structure(x),
            (Tab::Srat(t), Built::MemAff(x)) => t.add_memory_affinity(x),
            (Tab::Srat(t), Built::GenInit(x)) => t.add_generic_initiator(x),
            (Tab::Srat(t), Built::RintcAff(x)) => t.add_rintc_affinity(x),
            (Tab::Hmat(t), Built::MemProx(x)) => t.add_memory_proximity(x),
            (Tab::Hmat(t), Built::SysLoc(x)) => t.add_system_locality(x),
            (Tab::Hmat(t), Built::Msc(x)) => t.add_memory_side_cache(x),
            (Tab::Pptt(t), Built::Proc(x)) => {
                let hd = t.add_processor(x);
                let raw = hd.verif_raw();
                self.h.proc_.push((hd, idx));
                return (HC_PROC, raw);
            }
            (Tab::Pptt(t), Built::Cache(x)) => {
                let hd = t.add_cache(x);
                let raw = hd.verif_raw();
                self.h.cache.push((hd, idx));
                return (HC_CACHE, raw);
            }
            (Tab::Rhct(t), Built::Isa(s, _)) => {
                let hd = t.add_isa_string(s);
                let raw = hd.verif_raw();
                self.h.isa.push((hd, idx));
                return (HC_ISA, raw);
            }
            (Tab::Rhct(t), Built::Mmu(s, _)) => t.add_mmu_node(match s {
                0 => rhct::VirtualAddressScheme::Sv39,
                1 => rhct::VirtualAddressScheme::Sv48,
                _ => rhct::VirtualAddressScheme::Sv57,
            }),
            (Tab::Rhct(t), Built::Cmo(x)) => {
                let hd = t.add_cmo(x);
                let raw = hd.verif_raw();
                self.h.cmo.push((hd, idx));
                return (HC_CMO, raw);
            }
            (Tab::Rhct(t), Built::HartInfo(x)) => t.add_hart_info(x),
            (Tab::Rimt(t), Built::Iommu(x)) => {
                let hd = t.add_iommu(x);
                let raw = hd.verif_raw();
                self.h.iommu.push((hd, idx));
                return (HC_IOMMU, raw);
            }
            (Tab::Rimt(t), Built::Rc(x)) => t.add_pcie_root_complex(x),
            (Tab::Rimt(t), Built::Platform(x)) => t.add_platform(x),
            (Tab::Viot(t), Built::PciRange(x)) => t.add_pci_range(x),
            (Tab::Viot(t), Built::MmioEp(x)) => t.add_mmio_endpoint(x),
            (Tab::Viot(t), Built::VPci(x)) => {
                let hd = t.add_virtio_pci_iommu(x);
                let raw = hd.verif_raw() as u32;
                self.h.trans.push((hd, idx));
                return (HC_TRANS, raw);
            }
            (Tab::Viot(t), Built::VMmio(x)) => {
                let hd = t.add_virtio_mmio_iommu(x);
                let raw = hd.verif_raw() as u32;
                self.h.trans.push((hd, idx));
                return (HC_TRANS, raw);
            }
            (Tab::Cedt(t), Built::Chbs(x)) => t.add_host_bridge(x),
            (Tab::Cedt(t), Built::Cfmws(x)) => t.add_fixed_memory(x),
            (Tab::Cedt(t), Built::Cxims(x)) => t.add_xor_interleave_math(x),
            (Tab::Cedt(t), Built::Rdpas(x)) => t.add_port_association(x),
            (Tab::Hest(t), Built::AerRoot(x)) => t.add_structure(x),
            (Tab::Hest(t), Built::AerDev(x)) => t.add_structure(x),
            (Tab::Hest(t), Built::AerBridge(x)) => t.add_structure(x),
            (Tab::Hest(t), Built::Ghes(x)) => t.add_structure(x),
            (Tab::Hest(t), Built::GhesV2(x)) => t.add_structure(x),
            (Tab::Rqsc(t), Built::Controller(x)) => t.add_controller(x),
            _ => {} // an entry kind that does not belong to this table: ignored (keeps any tree executable)
        }
        (0, 0)
    }

    fn belongs(&self, k: K) -> bool {
        use K::*;
        match self.subject {
            Xsdt => k == XAddEntry,
            Mcfg => k == McAddEcam,
            Madt => matches!(k, MaLapic | MaIoApic | MaGicc | MaGicd | MaGicMsi | MaGicr | MaGicIts | MaRintc | MaImsic | MaAplic | MaPlic | MaRawPair),
            Srat => matches!(k, SrMemAff | SrGenInit | SrRintcAff),
            Hmat => matches!(k, HmMemProx | HmSysLoc | HmMsc),
            Pptt => matches!(k, PpProc | PpCache),
            Rhct => matches!(k, RhIsa | RhMmu | RhCmo | RhHartInfo),
            Rimt => matches!(k, RiIommu | RiRc | RiPlatform),
            Viot => matches!(k, ViPciRange | ViMmioEp | ViPciIommu | ViMmioIommu),
            Cedt => matches!(k, CeChbs | CeCfmws | CeCxims | CeRdpas),
            Hest => matches!(k, HeAerRoot | HeAerDev | HeAerBridge | HeGhes | HeGhesV2),
            Rqsc => k == RqController,
            _ => false,
        }
    }

    fn poison_check(&mut self, cx: &mut Cx) {
        // A refused operation is a no-op in the model, and the history goes on: whatever the crate
        // left behind is what the next observations see, so an operation that unwinds after it has
        // already touched the length, the running sum or a cell shows up as an ordinary violation
        // of the property whose invariant it broke. (On the pinned tree every injected refusal
        // leaves the object bit-identical; this only records which case occurred.)
        if let Some(prev) = &self.last_img {
            match catch(|| to_vec(self.aml())) {
                Ok(now) if &now == prev => cx.probe("fault.refusal.left_unchanged"),
                _ => cx.probe("fault.refusal.object_changed_by_refused_operation"),
            }
        }
    }
}

/// does the SLLBI description contain a list-setter call with a raw index beyond its list?
fn sysloc_has_raw_oor(op: &Op) -> bool {
    let i = op.arg(4) % 301;
    let t = op.arg(5) % 301;
    op.s.iter().any(|o| o.arg(2) == 1 && ((o.k == K::LocSetInit && o.arg(0) >= i) || (o.k == K::LocSetTarget && o.arg(0) >= t)))
}

/// Is it legitimate for the construction of the entry described by `op` to be refused?
fn ctor_refusal_expected(op: &Op) -> bool {
    let bad = |d: u64, f: u64| (d as u8) >= 32 || (f as u8) >= 8;
    match op.k {
        K::SrGenInit => op.arg(1) % 2 == 1 && bad(op.arg(4), op.arg(5)),
        K::RiIommu => op.arg(1) & 2 != 0 && bad(op.arg(5), op.arg(6)),
        K::ViPciRange => bad(op.arg(2), op.arg(3)) || bad(op.arg(6), op.arg(7)),
        K::ViPciIommu => bad(op.arg(2), op.arg(3)),
        K::CeRdpas => bad(op.arg(2), op.arg(3)),
        K::HeAerRoot | K::HeAerDev | K::HeAerBridge => op.arg(0) % 2 == 1 && bad(op.arg(3), op.arg(4)),
        // more private resources / bitmaps than the entry's own fields can describe (C18's domain)
        K::PpProc => op.s.iter().filter(|o| o.k == K::PnAddCache).count() > 58,
        K::CeCxims => op.s.iter().filter(|o| o.k == K::CxXormap).count() > 255,
        _ => false,
    }
}

fn standalone_bytes(be: &BuiltEntry) -> Result<Vec<u8>, Caught> {
    match &be.b {
        // XSDT entries are 64-bit physical addresses; MCFG allocation structures are
        // base(8) segment(2) start bus(1) end bus(1) reserved(4) — PCI Firmware spec 3.x table 4-3
        Built::U64(v) => Ok(v.to_le_bytes().to_vec()),
        Built::Ecam(base, seg, s, e) => {
            let mut b = base.to_le_bytes().to_vec();
            b.extend_from_slice(&seg.to_le_bytes());
            b.push(*s);
            b.push(*e);
            b.extend_from_slice(&[0; 4]);
            Ok(b)
        }
        other => {
            let a = other.aml().unwrap();
            catch(|| to_vec(a))
        }
    }
}

impl Subject for TableSubj {
    fn serialize(&self, sink: &mut dyn AmlSink) {
        self.aml().to_aml_bytes(sink)
    }

    fn sizes(&self) -> (u64, u64) {
        (spec::table_spec(self.subject).map(|s| s.first as u64).unwrap_or(0) + self.body, self.ents.len() as u64)
    }
    fn set_last(&mut self, img: Option<&[u8]>) {
        self.last_img = img.map(|x| x.to_vec());
    }

    fn apply(&mut self, op: &Op, cx: &mut Cx) -> Applied {
        if !self.belongs(op.k) {
            return Applied::ok();
        }
        if cx.on(P11) {
            if let Some(sh) = self.shadow.as_mut() {
                let cop = canonical_options(op);
                if cop != *op {
                    cx.probe("c11.shadow_entries_canonicalised");
                }
                let mut quiet = Cx::new(0, self.subject);
                quiet.stats_on = false;
                let _ = sh.apply(&cop, &mut quiet);
            }
        }
        let be = match build::build(op, &self.h) {
            Ok(Some(be)) => be,
            Ok(None) => {
                cx.probe("op.skipped_no_handle");
                return Applied::ok();
            }
            Err(e) => {
                if op.k == K::HmSysLoc && sysloc_has_raw_oor(op) {
                    // an out-of-range proximity-domain list index was refused: expected
                    cx.probe("fault.refusal.out_of_range_index");
                    return Applied { refused: true, refusal_expected: true };
                }
                if op.k == K::HmSysLoc {
                    // build_sysloc only performs in-range assignments: C12 says they are accepted
                    cx.fail(P12, "in_range_accepted", format!("SLLBI builder refused an in-range assignment: {:?} [{}]", e, op.brief()));
                    cx.stop = true;
                    return Applied { refused: true, refusal_expected: true };
                }
                // a constructor or builder refused its arguments; that is expected only for arguments
                // outside its domain (PCI device >= 32 / function >= 8, more sub-elements than fit)
                if ctor_refusal_expected(op) {
                    cx.probe("fault.refusal.constructor");
                    return Applied { refused: true, refusal_expected: true };
                }
                // An entry with in-domain parameters could not even be built. Only C03 quantifies over
                // "all entry parameters that fit the entry's length field"; the table was not touched,
                // so for the other properties this is simply an operation that did not take place.
                cx.probe("unexpected_refusal.constructor");
                cx.fail(P03, "entry_constructible", format!("{}: constructing an entry with in-domain parameters was refused [{}]", self.subject.name(), op.brief()));
                return Applied { refused: true, refusal_expected: true };
            }
        };
        let bytes = match standalone_bytes(&be) {
            Ok(b) => b,
            Err(_) => {
                // the entry refuses to serialise (CFMWS whose target count differs from its ways):
                // the add must refuse as well and leave the table as it was
                cx.probe("fault.refusal.entry_unserialisable");
                let idx = self.ents.len();
                let r = catch(|| self.add(be.b, idx));
                if r.is_ok() {
                    cx.probe("fault.refusal.unserialisable_entry_accepted");
                    cx.stop = true;
                } else {
                    self.poison_check(cx);
                }
                return Applied { refused: true, refusal_expected: true };
            }
        };
        cx.cover("entry.kinds", op.k as u64);
        // ---- entry-level oracles -------------------------------------------------------------
        if let Some(a) = be.b.aml() {
            c14_object(a, be.b.raw(), &bytes, op.k, cx);
            if cx.on(P14) && op.arg(9) % 7 == 3 {
                c14_abort(a, &bytes, op.arg(10) as usize, op.k, cx);
            }
        }
        if cx.on(P11) {
            let h = &self.h;
            let rebuild = |o: &Op| -> Option<Vec<u8>> {
                match build::build(o, h) {
                    Ok(Some(b)) => standalone_bytes(&b).ok(),
                    _ => None,
                }
            };
            c11_struct(op, &bytes, &rebuild, cx);
            // RIMT mapping flags (constructor booleans) sit inside the mapping array
            if matches!(op.k, K::RiRc | K::RiPlatform) && be.subn > 0 {
                let base = if op.k == K::RiRc { 16 } else { 12 + (be.aux & 0xffff_ffff) as usize + 1 };
                for (i, m) in op.s.iter().filter(|o| o.k == K::RiMap).enumerate().take(be.subn as usize) {
                    let want = (m.arg(4) & 1) | (m.arg(5) & 1) << 1 | (m.arg(6) & 1) << 2;
                    if spec::rd(&bytes, base + 20 * i + 16, 4) != Some(want) {
                        cx.fail(P11, "option_bits", format!("{}: id-mapping #{} flags are {:?}, constructor booleans call for {:#x}", op.k.name(), i, spec::rd(&bytes, base + 20 * i + 16, 4), want));
                    }
                }
            }
        }
        let mut matrix = None;
        if op.k == K::HmSysLoc {
            let i = (be.aux >> 32) as usize;
            let t = (be.aux & 0xffff_ffff) as usize;
            let mut m = vec![0xffffu16; i * t];
            for o in op.s.iter().filter(|o| o.k == K::LocSetEntry) {
                if i > 0 && t > 0 {
                    m[(o.arg(0) as usize % i) * t + (o.arg(1) as usize % t)] = o.arg(2) as u16;
                    cx.probe("c12.hmat_in_table_assignments");
                }
            }
            matrix = Some(m);
        }
        // ---- the operation itself -------------------------------------------------------------
        let idx = self.ents.len();
        let second_imsic = op.k == K::MaImsic && self.has_imsic;
        let kind = op.k;
        let be_subn = be.subn;
        let be_aux = be.aux;
        let r = catch(|| self.add(be.b, idx));
        match r {
            Ok((hclass, hraw)) => {
                if second_imsic {
                    // nothing says a second IMSIC must be refused; if accepted it is one more entry
                    cx.probe("fault.refusal.second_imsic_accepted");
                }
                if kind == K::MaImsic {
                    self.has_imsic = true;
                }
                self.body += bytes.len() as u64;
                if kind == K::MaRawPair {
                    // one caller-defined block, two structures for anyone who walks the body
                    for half in bytes.chunks(8) {
                        self.ents.push(Ent { kind: K::MaLapic, tcode: 0, bytes: half.to_vec(), hclass: 0, hraw: 0, refs: Vec::new(), subn: 0, aux: 0, matrix: None });
                    }
                    return Applied::ok();
                }
                self.ents.push(Ent { kind, tcode: be.tcode, bytes, hclass, hraw, refs: be.refs, subn: be.subn, aux: be.aux, matrix });
                Applied::ok()
            }
            Err(_) => {
                let oversize = (kind == K::PpProc && be_subn > 58) || (kind == K::CeCxims && be_subn > 255);
                // a platform name that is not a NUL-free ASCII string is outside the format: the crate
                // accepts it today, but refusing it would be legitimate
                let out_of_format = kind == K::RiPlatform && be_aux >> 32 != 0;
                if second_imsic {
                    cx.probe("fault.refusal.second_imsic");
                    self.poison_check(cx);
                    Applied { refused: true, refusal_expected: true }
                } else if out_of_format {
                    cx.probe("fault.refusal.out_of_format_name_refused");
                    self.poison_check(cx);
                    Applied { refused: true, refusal_expected: true }
                } else if oversize {
                    // a count that does not fit its field may be refused (that is what C18 asks for)
                    cx.probe("fault.refusal.oversize_entry_refused");
                    self.poison_check(cx);
                    Applied { refused: true, refusal_expected: true }
                } else {
                    Applied { refused: true, refusal_expected: false }
                }
            }
        }
    }

    fn check(&self, img: &[u8], cx: &mut Cx) {
        let sp = spec::table_spec(self.subject).unwrap();
        // ---------------- C03: tiling, order, type codes, counts ----------------
        let walked: Option<Vec<Extent>> = if cx.on(P03) || cx.on(P05) {
            match spec::walk(self.subject, img) {
                Ok(w) => Some(w),
                Err(e) => {
                    cx.fail(P03, "walk_tiles_image", format!("{} after {} adds: {}", self.subject.name(), self.ents.len(), e));
                    None
                }
            }
        } else {
            None
        };
        if cx.on(P03) {
            if let Some(w) = &walked {
                if w.len() != self.ents.len() {
                    cx.fail(P03, "walk_finds_added_entries", format!("{}: the walk finds {} entries, {} were added", self.subject.name(), w.len(), self.ents.len()));
                }
                for (i, (x, e)) in w.iter().zip(self.ents.iter()).enumerate() {
                    let framed = !matches!(sp.framing, spec::Framing::Fixed(_));
                    if framed && x.tcode != e.tcode {
                        cx.fail(P03, "walk_type_codes", format!("{}: entry #{} ({}) carries type code {}, the specification says {}", self.subject.name(), i, e.kind.name(), x.tcode, e.tcode));
                        break;
                    }
                    if x.len != e.bytes.len() {
                        cx.fail(P03, "entry_length_field", format!("{}: entry #{} ({}) declares {} bytes but serialises to {}", self.subject.name(), i, e.kind.name(), x.len, e.bytes.len()));
                        break;
                    }
                    if img[x.off..x.off + x.len] != e.bytes[..] {
                        cx.fail(P03, "entry_bytes_in_order", format!("{}: bytes of entry #{} ({}) at {} are not the entry that was added there", self.subject.name(), i, e.kind.name(), x.off));
                        break;
                    }
                    if let Err(m) = spec::entry_summary(self.subject, e.kind, &img[x.off..x.off + x.len], e.subn, e.aux) {
                        cx.fail(P03, "entry_summary_fields", format!("{}: entry #{}: {}", self.subject.name(), i, m));
                        break;
                    }
                }
                if let Some((off, w_)) = sp.count {
                    let got = spec::rd(img, off, w_);
                    // a count wider than its field is C18's matter, not generated here
                    if got != Some(w.len() as u64) {
                        cx.fail(P03, "header_count", format!("{}: count field @{} is {:?}, the walk finds {}", self.subject.name(), off, got, w.len()));
                    }
                }
            }
            if let Some((off, w_, val)) = sp.array_off {
                if spec::rd(img, off, w_) != Some(val) {
                    cx.fail(P03, "header_array_offset", format!("{}: array offset field @{} is {:?}, entries start at {}", self.subject.name(), off, spec::rd(img, off, w_), val));
                }
            }
        }
        // ---------------- C05: handles and reference fields ----------------
        if cx.on(P05) && matches!(self.subject, K::Pptt | K::Rhct | K::Rimt | K::Viot) {
            // a node whose sub-element count does not fit its own length field (only generated in the
            // oversize mode) has a wrapped length byte: framing is then C18's matter and the walk is
            // not consulted; handles and references are still compared with the true offsets
            let walked = if self.ents.iter().any(|e| e.kind == K::PpProc && e.subn > 58) { None } else { walked };
            let mut offs = Vec::with_capacity(self.ents.len());
            let mut p = sp.first as u64;
            for e in &self.ents {
                offs.push(p);
                p += e.bytes.len() as u64;
            }
            let later = self.ents.len();
            for (i, e) in self.ents.iter().enumerate() {
                if e.hclass != 0 {
                    cx.probe("c05.handles_checked");
                    if later - i > 256 {
                        cx.probe("c05.handle_checked_after_256_later_adds");
                    } else if later - i > 16 {
                        cx.probe("c05.handle_checked_after_16_later_adds");
                    }
                    if offs[i] > 65_535 {
                        cx.probe("c05.handle_beyond_65535_checked");
                    }
                    if e.hraw as u64 != offs[i] {
                        cx.fail(P05, "handle_is_offset", format!("{}: handle returned for node #{} ({}) is {}, the node starts at {}", self.subject.name(), i, e.kind.name(), e.hraw, offs[i]));
                    }
                    if let Some(w) = &walked {
                        if w.get(i).map(|x| x.off as u64) != Some(offs[i]) && w.len() == self.ents.len() {
                            cx.fail(P05, "handle_is_offset", format!("{}: node #{} is found by the walk at {:?}, expected {}", self.subject.name(), i, w.get(i).map(|x| x.off), offs[i]));
                        }
                    }
                }
                for r in &e.refs {
                    cx.probe("c05.references_checked");
                    cx.cover("c05.ref_pairs", (e.kind as u64) << 16 | self.ents[r.target].kind as u64);
                    if self.ents[r.target + 1..i].iter().any(|x| matches!(x.kind, K::PpProc | K::RhIsa | K::RhHartInfo | K::RiIommu | K::RiRc | K::RiPlatform)) {
                        cx.probe("c05.variable_size_node_between_mint_and_use");
                    }
                    let at = offs[i] as usize + r.off as usize;
                    let got = spec::rd(img, at, r.width as usize);
                    if got != Some(r.raw as u64) {
                        cx.fail(P05, "reference_verbatim", format!("{}: reference field @{}+{} of node #{} ({}) is {:?}, the handle it was built from is {}", self.subject.name(), offs[i], r.off, i, e.kind.name(), got, r.raw));
                    }
                    if r.raw as u64 != offs[r.target] {
                        cx.fail(P05, "reference_resolves", format!("{}: reference in node #{} ({}) holds {}, the node it names (#{}, {}) starts at {}", self.subject.name(), i, e.kind.name(), r.raw, r.target, self.ents[r.target].kind.name(), offs[r.target]));
                    } else if let Some(w) = &walked {
                        // resolves to the start of a node of the expected type in the independent walk
                        let want_t = self.ents[r.target].tcode;
                        match w.iter().find(|x| x.off as u64 == r.raw as u64) {
                            Some(x) if x.tcode == want_t => {}
                            Some(x) => cx.fail(P05, "reference_resolves", format!("{}: reference {} lands on a node of type {}, expected type {}", self.subject.name(), r.raw, x.tcode, want_t)),
                            None => cx.fail(P05, "reference_resolves", format!("{}: reference {} is not the start of any node found by the walk", self.subject.name(), r.raw)),
                        }
                    }
                }
            }
        }
        // ---------------- C11: order and repetition of option calls leave the table unchanged ----------------
        if cx.on(P11) {
            if let Some(sh) = &self.shadow {
                if let Ok(simg) = catch(|| to_vec(sh.aml())) {
                    if simg != img {
                        let at = simg.iter().zip(img.iter()).position(|(x, y)| x != y).unwrap_or(simg.len().min(img.len()));
                        cx.fail(P11, "order_and_repetition_independent", format!("{}: the table differs at byte {} from the same table built with every entry's option calls de-duplicated and in canonical order (len {} vs {})", self.subject.name(), at, img.len(), simg.len()));
                    }
                }
            }
        }
        // ---------------- C12: HMAT latency/bandwidth matrices inside the table ----------------
        if cx.on(P12) && self.subject == K::Hmat {
            let mut p = sp.first;
            for e in &self.ents {
                if let Some(m) = &e.matrix {
                    let i = (e.aux >> 32) as usize;
                    let t = (e.aux & 0xffff_ffff) as usize;
                    let base = p + 32 + 4 * i + 4 * t;
                    for (c, want) in m.iter().enumerate() {
                        let got = le16(img, base + 2 * c);
                        if got != Some(*want as u32) {
                            cx.fail(P12, "hmat_cell_last_value", format!("HMAT {}x{} matrix: cell (initiator {}, target {}) holds {:?}, last assigned {:#x}", i, t, c / t.max(1), c % t.max(1), got, want));
                            break;
                        }
                    }
                }
                p += e.bytes.len();
            }
        }
    }
}

// ------------------------------------------------------------------------------------------
// SLIT
// ------------------------------------------------------------------------------------------

struct SlitSubj {
    t: slit::SLIT,
    n: usize,
    m: Vec<u8>,
    last_img: Option<Vec<u8>>,
    touched: Vec<u8>,
    /// an out-of-range assignment was accepted: the cell model no longer applies
    lost: bool,
}

impl Subject for SlitSubj {
    fn serialize(&self, sink: &mut dyn AmlSink) {
        self.t.to_aml_bytes(sink)
    }
    fn sizes(&self) -> (u64, u64) {
        (44 + (self.n * self.n) as u64, 0)
    }
    fn set_last(&mut self, img: Option<&[u8]>) {
        self.last_img = img.map(|x| x.to_vec());
    }
    fn apply(&mut self, op: &Op, cx: &mut Cx) -> Applied {
        if op.k != K::SlSetDistance {
            return Applied::ok();
        }
        let (a, b, v) = (op.arg(0) as usize, op.arg(1) as usize, op.arg(2) as u8);
        let in_range = a < self.n && b < self.n;
        let r = catch(|| self.t.set_distance(a, b, v));
        match (r, in_range) {
            (Ok(()), true) => {
                self.m[a * self.n + b] = v;
                self.m[b * self.n + a] = v;
                if a == b {
                    cx.probe("c12.slit_diagonal_write");
                }
                let c = a.min(b) * self.n + a.max(b);
                if self.touched[c] >= 1 {
                    cx.probe("c12.slit_same_cell_rewrite");
                }
                self.touched[c] = self.touched[c].saturating_add(1);
                if self.n <= 6 {
                    cx.cover("c12.slit_shape_cells", (self.n as u64) << 16 | (a as u64) << 8 | b as u64);
                }
                Applied::ok()
            }
            (Err(_), true) => {
                cx.fail(P12, "in_range_accepted", format!("SLIT with {} localities refused set_distance({}, {}, {})", self.n, a, b, v));
                cx.stop = true; // reported under C12, which states acceptance; no other property speaks of it
                Applied { refused: true, refusal_expected: true }
            }
            (Ok(()), false) => {
                // the statement is silent about out-of-range pairs: the cell model cannot follow, but
                // checksum and length (C01/C02) must survive whatever the crate chose to do
                cx.probe("fault.refusal.out_of_range_accepted");
                // The matrix has a fixed size, so an accepted out-of-range pair can only have done
                // nothing or have written some in-range cell. The model treats it as a no-op and the
                // comparison goes on: "assignments to one cell never disturb another" covers the rest.
                Applied::ok()
            }
            (Err(_), false) => {
                cx.probe("fault.refusal.out_of_range_index");
                if let Some(prev) = &self.last_img {
                    if catch(|| to_vec(&self.t)).ok().as_ref() != Some(prev) {
                        // a refused assignment is a no-op in the model; see TableSubj::poison_check
                        cx.probe("fault.refusal.object_changed_by_refused_operation");
                    } else {
                        cx.probe("fault.refusal.left_unchanged");
                    }
                }
                Applied { refused: true, refusal_expected: true }
            }
        }
    }
    fn check(&self, img: &[u8], cx: &mut Cx) {
        if cx.on(P03) {
            if le64(img, 36) != Some(self.n as u64) {
                cx.fail(P03, "header_count", format!("SLIT: locality count @36 is {:?}, constructed with {}", le64(img, 36), self.n));
            }
            if img.len() != 44 + self.n * self.n {
                cx.fail(P03, "walk_tiles_image", format!("SLIT: image has {} bytes, {} localities need {}", img.len(), self.n, 44 + self.n * self.n));
            }
        }
        if cx.on(P12) && !self.lost && img.len() >= 44 + self.n * self.n {
            if let Some(c) = (0..self.n * self.n).find(|c| img[44 + c] != self.m[*c]) {
                cx.fail(P12, "slit_cell_last_value", format!("SLIT {}x{}: cell ({}, {}) holds {}, last assigned {}", self.n, self.n, c / self.n, c % self.n, img[44 + c], self.m[c]));
            }
        }
    }
}

// ------------------------------------------------------------------------------------------
// standalone HMAT system-locality structure (C12, C11)
// ------------------------------------------------------------------------------------------

struct SysLocSubj {
    s: hmat::SystemLocality,
    i: usize,
    t: usize,
    m: Vec<u16>,
    inits: Vec<u32>,
    targs: Vec<u32>,
    root: Op,
    last: Option<Vec<u8>>,
    writes: Vec<u8>,
    lists_lost: bool,
}

impl Subject for SysLocSubj {
    fn serialize(&self, sink: &mut dyn AmlSink) {
        self.s.to_aml_bytes(sink)
    }
    fn checksummed(&self) -> bool {
        false
    }
    fn length_field(&self) -> Option<usize> {
        None
    }
    fn set_last(&mut self, img: Option<&[u8]>) {
        self.last = img.map(|x| x.to_vec());
    }
    fn apply(&mut self, op: &Op, cx: &mut Cx) -> Applied {
        match op.k {
            K::LocNonSeq => {
                self.s.non_sequential_transfers();
                self.root.s.push(op.clone());
            }
            K::LocMinTransfer => {
                self.s.minimum_transfer_size_required();
                self.root.s.push(op.clone());
            }
            K::LocSetInit | K::LocSetTarget => {
                let isinit = op.k == K::LocSetInit;
                let n = if isinit { self.i } else { self.t };
                let idx = op.arg(0) as usize;
                let v = op.arg(1) as u32;
                let r = catch(|| if isinit { self.s.set_initiator_value(idx, v) } else { self.s.set_target_value(idx, v) });
                match (r, idx < n) {
                    (Ok(()), true) => {
                        if isinit {
                            self.inits[idx] = v
                        } else {
                            self.targs[idx] = v
                        }
                    }
                    (Err(_), true) => {
                        cx.fail(P12, "in_range_accepted", format!("SLLBI {}x{}: in-range proximity-domain list index {} refused", self.i, self.t, idx));
                        cx.stop = true;
                    }
                    (Ok(()), false) => {
                        // an accepted out-of-range list index: the lists can no longer be followed, the
                        // matrix cells still can (nothing assigned to them)
                        cx.probe("fault.refusal.out_of_range_accepted");
                        self.lists_lost = true;
                    }
                    (Err(_), false) => {
                        cx.probe("fault.refusal.out_of_range_index");
                        return Applied { refused: true, refusal_expected: true };
                    }
                }
            }
            K::LocSetEntry => {
                let (i, j, v) = (op.arg(0) as usize, op.arg(1) as usize, op.arg(2) as u16);
                let in_range = i < self.i && j < self.t;
                let r = catch(|| self.s.set_entry_value(i, j, v));
                match (r, in_range) {
                    (Ok(()), true) => {
                        let c = i * self.t + j;
                        self.m[c] = v;
                        if self.writes[c] >= 1 {
                            cx.probe("c12.hmat_same_cell_rewrite");
                        }
                        self.writes[c] = self.writes[c].saturating_add(1);
                        if self.i != self.t {
                            cx.probe("c12.hmat_nonsquare_write");
                        }
                        if self.i == 1 || self.t == 1 {
                            cx.probe("c12.hmat_single_row_or_column_write");
                        }
                        if self.i <= 6 && self.t <= 6 {
                            cx.cover("c12.hmat_shape_cells", (self.i as u64) << 24 | (self.t as u64) << 16 | (i as u64) << 8 | j as u64);
                        }
                    }
                    (Err(_), true) => {
                        cx.fail(P12, "in_range_accepted", format!("SLLBI with {} initiators x {} targets refused set_entry_value({}, {}, {:#x})", self.i, self.t, i, j, v));
                        cx.stop = true; // reported under C12 only
                        return Applied { refused: true, refusal_expected: true };
                    }
                    (Ok(()), false) => {
                        cx.probe("fault.refusal.out_of_range_accepted");
                        cx.stop = true; // which cell was written is unspecified: the model cannot follow
                    }
                    (Err(_), false) => {
                        cx.probe("fault.refusal.out_of_range_index");
                        if let Some(prev) = &self.last {
                            if catch(|| to_vec(&self.s)).ok().as_ref() != Some(prev) {
                                cx.probe("fault.refusal.object_changed_by_refused_operation");
                            }
                        }
                        return Applied { refused: true, refusal_expected: true };
                    }
                }
            }
            _ => {}
        }
        Applied::ok()
    }
    fn check(&self, img: &[u8], cx: &mut Cx) {
        let base = 32 + 4 * self.i + 4 * self.t;
        if cx.on(P12) {
            if img.len() != base + 2 * self.i * self.t {
                cx.fail(P12, "hmat_cell_last_value", format!("SLLBI {}x{} serialises to {} bytes, its matrix needs {}", self.i, self.t, img.len(), base + 2 * self.i * self.t));
                return;
            }
            for c in 0..self.i * self.t {
                if le16(img, base + 2 * c) != Some(self.m[c] as u32) {
                    cx.fail(P12, "hmat_cell_last_value", format!("SLLBI {}x{}: row-major cell (initiator {}, target {}) holds {:?}, last assigned {:#x}", self.i, self.t, c / self.t, c % self.t, le16(img, base + 2 * c), self.m[c]));
                    break;
                }
            }
            for (k, v) in self.inits.iter().enumerate().filter(|_| !self.lists_lost) {
                if le32(img, 32 + 4 * k) != Some(*v) {
                    cx.fail(P12, "hmat_cell_undisturbed", format!("SLLBI: initiator list entry {} holds {:?}, last assigned {:#x}", k, le32(img, 32 + 4 * k), v));
                }
            }
            for (k, v) in self.targs.iter().enumerate().filter(|_| !self.lists_lost) {
                if le32(img, 32 + 4 * self.i + 4 * k) != Some(*v) {
                    cx.fail(P12, "hmat_cell_undisturbed", format!("SLLBI: target list entry {} holds {:?}, last assigned {:#x}", k, le32(img, 32 + 4 * self.i + 4 * k), v));
                }
            }
        }
        if cx.on(P11) {
            let root = &self.root;
            let rebuild = |o: &Op| -> Option<Vec<u8>> { catch(|| to_vec(&build::build_sysloc_flags_only(o))).ok() };
            // flags only: the cell assignments are C12's
            if let Ok(b) = catch(|| to_vec(&build::build_sysloc_flags_only(root))) {
                c11_struct(root, &b, &rebuild, cx);
            }
            if let Some(f) = optspec::expected_fields(root).first() {
                if img.get(f.off).map(|x| *x as u64) != Some(f.value) {
                    cx.fail(P11, "option_bits", format!("SLLBI flags @8 are {:?}, the invoked options call for {:#x}", img.get(f.off), f.value));
                }
            }
        }
    }
}

// ------------------------------------------------------------------------------------------
// TPM tables, FADT, constructor-only tables
// ------------------------------------------------------------------------------------------

struct Tpm2Subj {
    t: tpm2::Tpm2,
    has_log: bool,
    last: Option<Vec<u8>>,
}
impl Subject for Tpm2Subj {
    fn serialize(&self, sink: &mut dyn AmlSink) {
        self.t.to_aml_bytes(sink)
    }
    fn set_last(&mut self, img: Option<&[u8]>) {
        self.last = img.map(|x| x.to_vec());
    }
    fn apply(&mut self, op: &Op, cx: &mut Cx) -> Applied {
        if op.k != K::TpSetLogArea {
            return Applied::ok();
        }
        let r = catch(|| self.t.set_log_area(op.arg(0) as u32, op.arg(1)));
        match (r, self.has_log) {
            (Ok(()), false) => {
                self.has_log = true;
                cx.probe("tpm2.log_area_set");
                Applied::ok()
            }
            (Ok(()), true) => {
                // nothing says a second call must be refused; if it is accepted the table must still
                // satisfy C01/C02 afterwards, so the history simply continues
                cx.probe("tpm2.second_log_area_accepted");
                Applied::ok()
            }
            (Err(_), true) => {
                cx.probe("fault.refusal.second_log_area");
                if let Some(prev) = &self.last {
                    if catch(|| to_vec(&self.t)).ok().as_ref() != Some(prev) {
                        cx.probe("fault.refusal.object_changed_by_refused_operation");
                    }
                }
                Applied { refused: true, refusal_expected: true }
            }
            (Err(_), false) => Applied { refused: true, refusal_expected: false },
        }
    }
    fn check(&self, _img: &[u8], _cx: &mut Cx) {}
}

struct TcpaServerSubj {
    t: tpm2::TpmServer1_2,
    root: Op,
}

fn tcpa_apply(t: tpm2::TpmServer1_2, op: &Op) -> tpm2::TpmServer1_2 {
    match op.k {
        K::TsLogArea => t.log_area(op.arg(0), op.arg(1)),
        K::TsActiveLow => t.active_low(),
        K::TsEdge => t.edge_triggered(),
        K::TsSciGpe => t.sci_gpe(op.arg(0) as u8),
        K::TsGsi => t.gsi(op.arg(0) as u32),
        K::TsPnp => t.bus_is_pnp(),
        K::TsPci => t.pci_sbdf(op.arg(0) as u8, op.arg(1) as u8, op.arg(2) as u8, op.arg(3) as u8),
        K::TsBase => t.base_addr(build::gas_at(op, 0)),
        K::TsConfig => t.config_addr(build::gas_at(op, 0)),
        _ => t,
    }
}

fn tcpa_build(root: &Op) -> Option<Vec<u8>> {
    let (a, b, c) = oem(root);
    catch(|| {
        let mut t = tpm2::TpmServer1_2::new(a, b, c);
        for o in &root.s {
            t = tcpa_apply(t, o);
        }
        to_vec(&t)
    })
    .ok()
}

impl Subject for TcpaServerSubj {
    fn serialize(&self, sink: &mut dyn AmlSink) {
        self.t.to_aml_bytes(sink)
    }
    fn raw(&self) -> Option<Vec<u8>> {
        Some(self.t.as_bytes().to_vec())
    }
    fn apply(&mut self, op: &Op, cx: &mut Cx) -> Applied {
        if !matches!(op.k, K::TsLogArea | K::TsActiveLow | K::TsEdge | K::TsSciGpe | K::TsGsi | K::TsPnp | K::TsPci | K::TsBase | K::TsConfig) {
            return Applied::ok();
        }
        let t = self.t;
        let bad_pci = op.k == K::TsPci && (op.arg(2) as u8 >= 32 || op.arg(3) as u8 >= 8);
        match catch(|| tcpa_apply(t, op)) {
            Ok(n) => {
                if bad_pci {
                    cx.probe("fault.refusal.bad_pci_accepted");
                }
                self.t = n;
                self.root.s.push(op.clone());
                Applied::ok()
            }
            Err(_) => {
                if bad_pci {
                    cx.probe("fault.refusal.constructor");
                }
                Applied { refused: true, refusal_expected: bad_pci }
            }
        }
    }
    fn check(&self, img: &[u8], cx: &mut Cx) {
        if cx.on(P11) {
            c11_struct(&self.root, img, &|o: &Op| tcpa_build(o), cx);
            if let Some(c) = tcpa_build(&canonical_options(&self.root)) {
                if c != img {
                    cx.fail(P11, "order_and_repetition_independent", format!("TcpaServer: the table differs from the one built from the same option calls de-duplicated and in canonical order [{}]", self.root.brief()));
                }
            }
        }
    }
}

struct FadtSubj {
    b: fadt::FADTBuilder,
    root: Op,
}

fn fadt_flag(idx: u64) -> fadt::Flags {
    use fadt::Flags::*;
    match idx % 25 {
        0 => Wbinvd,
        1 => WbinvdFlush,
        2 => ProcC1,
        3 => PLvl2Up,
        4 => PwrButton,
        5 => SlpButton,
        6 => FixRtc,
        7 => RtcS4,
        8 => TmrValExt,
        9 => DckCap,
        10 => ResetRegSup,
        11 => SealedCase,
        12 => Headless,
        13 => CpuSwSlp,
        14 => PciExpWak,
        15 => UsePlatformClock,
        16 => S4RtcStsValid,
        17 => RemotePowerOnCapable,
        18 => ForceApicClusterModel,
        19 => ForceApicPhysicalDestinationMode,
        20 => HwReducedAcpi,
        21 => LowPowerS0IdleCapable,
        22 => PersistentCpuCachesNotReported,
        23 => PersistentCpuCachesNotPersistent,
        _ => PersistentCpuCachesArePersistent,
    }
}

fn fadt_apply(b: fadt::FADTBuilder, op: &Op) -> fadt::FADTBuilder {
    use fadt::PmProfile::*;
    match op.k {
        K::FaFlag => b.flag(fadt_flag(op.arg(0))),
        K::FaProfile => b.preferred_pm_profile(match op.arg(0) % 9 {
            0 => Unspecified,
            1 => Desktop,
            2 => Mobile,
            3 => Workstation,
            4 => EnterpriseServer,
            5 => SohoServer,
            6 => AppliancePc,
            7 => PerformanceServer,
            _ => Tablet,
        }),
        K::FaDsdt32 => b.dsdt_32(op.arg(0) as u32),
        K::FaDsdt64 => b.dsdt_64(op.arg(0)),
        K::FaFw32 => b.firmware_ctrl_32(op.arg(0) as u32),
        K::FaFw64 => b.firmware_ctrl_64(op.arg(0)),
        K::FaAcpiEnable => b.acpi_enable(),
        K::FaAcpiDisable => b.acpi_disable(),
        K::FaGpe => b.gpe_info(op.arg(0) as u32, op.arg(1) as u32, op.arg(2) as u8, op.arg(3) as u8, op.arg(4) as u8),
        K::FaPoke => fadt_poke(b, op),
        _ => b,
    }
}

/// number of public FADTBuilder fields `FaPoke` can write directly (the builder has no method for them)
pub const FADT_POKE_FIELDS: u64 = 13;

/// (offset, width) in the FADT image of the public field `FaPoke` index i writes — ACPI 6.5 table 5.9
pub fn fadt_poke_range(i: u64) -> (usize, usize) {
    match i % FADT_POKE_FIELDS {
        0 => (116, 12), // RESET_REG
        1 => (128, 1),  // RESET_VALUE
        2 => (129, 2),  // ARM_BOOT_ARCH
        3 => (46, 2),   // SCI_INT
        4 => (48, 4),   // SMI_CMD
        5 => (109, 2),  // IAPC_BOOT_ARCH
        6 => (244, 12), // SLEEP_CONTROL_REG
        7 => (256, 12), // SLEEP_STATUS_REG
        8 => (268, 8),  // Hypervisor Vendor Identity
        9 => (54, 1),   // S4BIOS_REQ
        10 => (96, 2),  // P_LVL2_LAT
        11 => (108, 1), // CENTURY
        _ => (9, 1),    // the checksum byte itself: finalize() must not trust what it finds there
    }
}

fn fadt_poke(mut b: fadt::FADTBuilder, op: &Op) -> fadt::FADTBuilder {
    let v = op.arg(1);
    match op.arg(0) % FADT_POKE_FIELDS {
        0 => b.reset_reg = build::gas_at(op, 1),
        1 => b.reset_value = v as u8,
        2 => b.arm_boot_arch = (v as u16).into(),
        3 => b.sci_int = (v as u16).into(),
        4 => b.smi_cmd = (v as u32).into(),
        5 => b.iapc_boot_arch = (v as u16).into(),
        6 => b.sleep_control_reg = build::gas_at(op, 1),
        7 => b.sleep_status_reg = build::gas_at(op, 1),
        8 => b.hypervisor_vendor_identity = v.into(),
        9 => b.s4bios_req = v as u8,
        10 => b.p_lvl2_lat = (v as u16).into(),
        11 => b.century = v as u8,
        _ => b.checksum = v as u8,
    }
    b
}

fn fadt_build(root: &Op) -> Option<Vec<u8>> {
    let (a, b, c) = oem(root);
    catch(|| {
        let mut f = fadt::FADTBuilder::new(a, b, c);
        for o in &root.s {
            f = fadt_apply(f, o);
        }
        to_vec(&f.finalize())
    })
    .ok()
}

impl Subject for FadtSubj {
    fn serialize(&self, sink: &mut dyn AmlSink) {
        self.b.finalize().to_aml_bytes(sink)
    }
    fn apply(&mut self, op: &Op, _cx: &mut Cx) -> Applied {
        if !matches!(op.k, K::FaFlag | K::FaProfile | K::FaDsdt32 | K::FaDsdt64 | K::FaFw32 | K::FaFw64 | K::FaAcpiEnable | K::FaAcpiDisable | K::FaGpe | K::FaPoke) {
            return Applied::ok();
        }
        let b = self.b;
        match catch(|| fadt_apply(b, op)) {
            Ok(n) => {
                self.b = n;
                self.root.s.push(op.clone());
                Applied::ok()
            }
            Err(_) => Applied { refused: true, refusal_expected: false },
        }
    }
    fn check(&self, img: &[u8], cx: &mut Cx) {
        if cx.on(P11) {
            c11_struct(&self.root, img, &|o: &Op| fadt_build(o), cx);
            if let Some(c) = fadt_build(&canonical_options(&self.root)) {
                if c != img {
                    cx.fail(P11, "order_and_repetition_independent", format!("Fadt: the table differs from the one built from the same option calls de-duplicated and in canonical order [{}]", self.root.brief()));
                }
            }
        }
    }
}

enum ConstTab {
    Bert(bert::BERT),
    Spcr(spcr::SPCR<'static>),
    Rsdp(rsdp::Rsdp),
    Facs(facs::FACS),
    TcpaClient(tpm2::TpmClient1_2),
}
struct ConstSubj(ConstTab);
impl Subject for ConstSubj {
    fn serialize(&self, sink: &mut dyn AmlSink) {
        match &self.0 {
            ConstTab::Bert(x) => x.to_aml_bytes(sink),
            ConstTab::Spcr(x) => x.to_aml_bytes(sink),
            ConstTab::Rsdp(x) => x.to_aml_bytes(sink),
            ConstTab::Facs(x) => x.to_aml_bytes(sink),
            ConstTab::TcpaClient(x) => x.to_aml_bytes(sink),
        }
    }
    fn raw(&self) -> Option<Vec<u8>> {
        match &self.0 {
            ConstTab::Bert(x) => Some(x.as_bytes().to_vec()),
            ConstTab::Rsdp(x) => Some(x.as_bytes().to_vec()),
            ConstTab::Facs(x) => Some(x.as_bytes().to_vec()),
            _ => None,
        }
    }
    fn checksummed(&self) -> bool {
        !matches!(self.0, ConstTab::Facs(_))
    }
    fn length_field(&self) -> Option<usize> {
        match self.0 {
            ConstTab::Rsdp(_) => Some(20),
            _ => Some(4),
        }
    }
    fn apply(&mut self, op: &Op, cx: &mut Cx) -> Applied {
        // Direct writes to the public fields of the RSDP and FACS. They are only generated in the
        // C14 batches: a caller who overwrites revision or length breaks C01/C02 by their own hand,
        // but the raw form must still equal the serialised form and every sink must still agree.
        match (&mut self.0, op.k) {
            (ConstTab::Rsdp(r), K::RsdpPoke) => {
                cx.probe("c14.public_field_writes");
                match op.arg(0) % 5 {
                    0 => r.revision = op.arg(1) as u8,
                    1 => r.xsdt_addr = op.arg(1).into(),
                    2 => r.length = (op.arg(1) as u32).into(),
                    3 => r.oem_id = op.arr::<6>(0),
                    _ => r.extended_checksum = op.arg(1) as u8,
                }
            }
            (ConstTab::Facs(f), K::FacsPoke) => {
                cx.probe("c14.public_field_writes");
                match op.arg(0) % 6 {
                    0 => f.hardware_signature = (op.arg(1) as u32).into(),
                    1 => f.waking = (op.arg(1) as u32).into(),
                    2 => f.lock = (op.arg(1) as u32).into(),
                    3 => f.flags = (op.arg(1) as u32).into(),
                    4 => f.x_waking = op.arg(1).into(),
                    _ => f.version = op.arg(1) as u8,
                }
            }
            _ => {}
        }
        Applied::ok()
    }
    fn check(&self, img: &[u8], cx: &mut Cx) {
        match self.0 {
            ConstTab::Rsdp(_) => {
                if img.len() >= 20 && sum8(&img[..20]) != 0 {
                    cx.fail(P01, "rsdp_first_20_sum_zero", format!("RSDP: first 20 bytes sum to {}", sum8(&img[..20])));
                }
                if img.len() != 36 {
                    cx.fail(P02, "length_equals_emitted", format!("RSDP serialises to {} bytes, the specification says 36", img.len()));
                }
            }
            ConstTab::Facs(_) => {
                if img.len() != 64 {
                    cx.fail(P02, "length_equals_emitted", format!("FACS serialises to {} bytes, the specification says 64", img.len()));
                }
            }
            _ => {}
        }
    }
}

// ------------------------------------------------------------------------------------------
// the generic table Sdt against a Vec<u8> reference model (C13)
// ------------------------------------------------------------------------------------------

struct SdtSubj {
    s: sdt::Sdt,
    m: Vec<u8>,
    prev_kind: u64,
    /// C02 applies to the generic table as long as the caller has not overwritten bytes 4..8 since
    /// the last append (creation and every append put the true length there)
    length_is_tables: bool,
}

fn model_fix_checksum(m: &mut [u8]) {
    m[9] = 0;
    m[9] = 0u8.wrapping_sub(sum8(m));
}

fn sdt_off_class(off: usize, w: usize, len: usize) -> u64 {
    if off.checked_add(w).map(|e| e > len).unwrap_or(true) {
        6 // first invalid and beyond
    } else if off + w == len {
        5 // last valid position
    } else if off < 4 {
        0 // signature
    } else if off < 8 {
        1 // length field
    } else if off <= 9 && off + w > 9 {
        2 // covers the checksum byte
    } else if off < 36 {
        3 // rest of header
    } else {
        4 // body
    }
}

impl SdtSubj {
    fn append(&mut self, bytes: &[u8]) {
        self.m.extend_from_slice(bytes);
        let l = (self.m.len() as u32).to_le_bytes();
        self.m[4..8].copy_from_slice(&l);
        model_fix_checksum(&mut self.m);
    }
}

impl Subject for SdtSubj {
    fn serialize(&self, sink: &mut dyn AmlSink) {
        self.s.to_aml_bytes(sink)
    }
    fn sizes(&self) -> (u64, u64) {
        (self.m.len() as u64, 0)
    }
    fn length_field(&self) -> Option<usize> {
        // caller-writable: only asserted while no caller write has touched it since the last append
        if self.length_is_tables {
            Some(4)
        } else {
            None
        }
    }
    fn apply(&mut self, op: &Op, cx: &mut Cx) -> Applied {
        let len = self.m.len();
        let kind_id = op.k as u64;
        let mut res = Applied::ok();
        match op.k {
            K::SdAppend8 | K::SdAppend16 | K::SdAppend32 | K::SdAppend64 | K::SdAppendSlice => {
                let v = op.arg(0);
                let bytes: Vec<u8> = match op.k {
                    K::SdAppend8 => vec![v as u8],
                    K::SdAppend16 => (v as u16).to_le_bytes().to_vec(),
                    K::SdAppend32 => (v as u32).to_le_bytes().to_vec(),
                    K::SdAppend64 => v.to_le_bytes().to_vec(),
                    _ => op.b.clone(),
                };
                if op.k == K::SdAppendSlice && bytes.is_empty() {
                    cx.probe("c13.empty_slice_append");
                }
                let r = catch(|| match op.k {
                    K::SdAppend8 => self.s.append(v as u8),
                    K::SdAppend16 => self.s.append(v as u16),
                    K::SdAppend32 => self.s.append(v as u32),
                    K::SdAppend64 => self.s.append(v),
                    _ => self.s.append_slice(&bytes),
                });
                if r.is_err() {
                    cx.fail(P13, "append_accepted", format!("Sdt of {} bytes refused {}", len, op.brief()));
                    cx.stop = true;
                    res = Applied { refused: true, refusal_expected: true };
                } else {
                    self.append(&bytes);
                    self.length_is_tables = true;
                }
                cx.cover("c13.op_offclass", kind_id << 8 | 7);
            }
            K::SdWrite8 | K::SdWrite16 | K::SdWrite32 | K::SdWrite64 | K::SdWriteBytes => {
                let off = op.arg(0) as usize;
                let v = op.arg(1);
                let bytes: Vec<u8> = match op.k {
                    K::SdWrite8 => vec![v as u8],
                    K::SdWrite16 => (v as u16).to_le_bytes().to_vec(),
                    K::SdWrite32 => (v as u32).to_le_bytes().to_vec(),
                    K::SdWrite64 => v.to_le_bytes().to_vec(),
                    _ => op.b.clone(),
                };
                let w = bytes.len();
                if w == 0 && off > len {
                    return Applied::ok(); // empty write beyond the end: the statement is silent
                }
                let in_range = off.checked_add(w).map(|e| e <= len).unwrap_or(false);
                cx.cover("c13.op_offclass", kind_id << 8 | sdt_off_class(off, w, len));
                let before = self.s.as_slice().to_vec();
                let r = catch(|| match op.k {
                    K::SdWrite8 => self.s.write_u8(off, v as u8),
                    K::SdWrite16 => self.s.write_u16(off, v as u16),
                    K::SdWrite32 => self.s.write_u32(off, v as u32),
                    K::SdWrite64 => self.s.write_u64(off, v),
                    _ => self.s.write_bytes(off, &bytes),
                });
                match (r, in_range) {
                    (Ok(()), true) => {
                        self.m[off..off + w].copy_from_slice(&bytes);
                        model_fix_checksum(&mut self.m);
                        if w > 0 && off < 8 && off + w > 4 {
                            self.length_is_tables = false;
                        }
                    }
                    (Err(_), true) => {
                        cx.fail(P13, "in_range_write_accepted", format!("Sdt of {} bytes refused {}", len, op.brief()));
                        cx.stop = true;
                        res = Applied { refused: true, refusal_expected: true };
                    }
                    (Ok(()), false) => {
                        cx.fail(P13, "oob_write_refused", format!("Sdt of {} bytes accepted a write of {} bytes at offset {}", len, w, off));
                    }
                    (Err(_), false) => {
                        cx.probe("fault.refusal.oob_write");
                        if off == usize::MAX || off > (1 << 40) {
                            cx.probe("fault.refusal.oob_write_huge_offset");
                        }
                        if self.s.as_slice() != &before[..] {
                            cx.fail(P13, "refused_write_leaves_unchanged", format!("Sdt of {} bytes changed although {} was refused", len, op.brief()));
                        }
                        res = Applied { refused: true, refusal_expected: true };
                    }
                }
            }
            K::SdUpdateCksum => {
                let _ = catch(|| self.s.update_checksum());
                model_fix_checksum(&mut self.m);
                cx.cover("c13.op_offclass", kind_id << 8 | 7);
            }
            K::SdSinkPush => {
                // a caller's producer pushes bytes through the sink interface, possibly failing part-way
                let abort = if op.arg(1) % 4 == 0 && !op.b.is_empty() { Some((op.arg(2) as usize) % (op.b.len() + 1)) } else { None };
                let p = Scripted { data: &op.b, script: op.arg(0), abort_after: abort };
                let r = catch(|| p.to_aml_bytes(&mut self.s as &mut dyn AmlSink));
                let delivered = abort.map(|k| k.min(op.b.len())).unwrap_or(op.b.len());
                match r {
                    Ok(()) => {}
                    Err(Caught::ProducerAbort) => cx.probe("fault.producer_abort.fired"),
                    Err(e) => cx.fail(P13, "sink_push_accepted", format!("Sdt used as a sink unwound: {:?}", e)),
                }
                for b in &op.b[..delivered] {
                    self.append(&[*b]);
                    self.length_is_tables = true;
                }
                cx.cover("c13.op_offclass", kind_id << 8 | 7);
            }
            _ => return Applied::ok(),
        }
        cx.cover("c13.op_adjacency", self.prev_kind << 16 | kind_id);
        self.prev_kind = kind_id;
        res
    }
    fn check(&self, img: &[u8], cx: &mut Cx) {
        if !cx.on(P13) {
            return;
        }
        if self.s.as_slice() != &self.m[..] {
            let at = self.s.as_slice().iter().zip(self.m.iter()).position(|(a, b)| a != b).unwrap_or(self.m.len().min(self.s.len()));
            cx.fail(P13, "equals_vector_model", format!("Sdt contents differ from the byte-vector model at offset {} (len {} vs model {})", at, self.s.len(), self.m.len()));
        }
        if self.s.len() != self.m.len() {
            cx.fail(P13, "equals_vector_model", format!("Sdt::len() is {}, the model has {}", self.s.len(), self.m.len()));
        }
        if self.s.is_empty() != self.m.is_empty() {
            cx.fail(P13, "equals_vector_model", "Sdt::is_empty disagrees with the model".into());
        }
        if img != &self.m[..] {
            cx.fail(P13, "serialises_to_model", format!("Sdt serialises to {} bytes that differ from the model ({} bytes)", img.len(), self.m.len()));
        }
        if sum8(self.s.as_slice()) != 0 {
            cx.fail(P13, "sum_zero_after_every_op", format!("Sdt image sums to {} after {}", sum8(self.s.as_slice()), "the last operation"));
        }
    }
}

// ------------------------------------------------------------------------------------------
// the checksum accumulator against a wide-integer model (C17)
// ------------------------------------------------------------------------------------------

struct CksumSubj {
    c: Checksum,
    m: i128,
    /// (inverse op, raw value before the op was applied)
    hist: Vec<(Op, u8)>,
}

impl Subject for CksumSubj {
    fn serialize(&self, sink: &mut dyn AmlSink) {
        sink.byte(self.c.raw_value());
        sink.byte(self.c.value());
    }
    fn checksummed(&self) -> bool {
        false
    }
    fn length_field(&self) -> Option<usize> {
        None
    }
    fn apply(&mut self, op: &Op, cx: &mut Cx) -> Applied {
        let before = self.c.raw_value();
        match op.k {
            K::CkAdd => {
                let v = op.arg(0) as u8;
                cx.cover("c17.add_pairs", (before as u64) << 8 | v as u64);
                self.c.add(v);
                self.m += v as i128;
                self.hist.push((Op::new(K::CkSub).a(&[v as u64]), before));
            }
            K::CkSub => {
                let v = op.arg(0) as u8;
                cx.cover("c17.sub_pairs", (before as u64) << 8 | v as u64);
                self.c.sub(v);
                self.m -= v as i128;
                self.hist.push((Op::new(K::CkAdd).a(&[v as u64]), before));
            }
            K::CkAppend => {
                self.c.append(&op.b);
                self.m += op.b.iter().map(|x| *x as i128).sum::<i128>();
                self.hist.push((Op::new(K::CkDelete).b(&op.b), before));
                cx.cover("c17.slice_len_classes", len_class(op.b.len()));
            }
            K::CkDelete => {
                self.c.delete(&op.b);
                self.m -= op.b.iter().map(|x| *x as i128).sum::<i128>();
                self.hist.push((Op::new(K::CkAppend).b(&op.b), before));
                cx.cover("c17.slice_len_classes", 16 + len_class(op.b.len()));
            }
            K::CkSink => {
                let abort = if op.arg(1) % 4 == 0 && !op.b.is_empty() { Some((op.arg(2) as usize) % (op.b.len() + 1)) } else { None };
                let p = Scripted { data: &op.b, script: op.arg(0), abort_after: abort };
                let r = catch(|| p.to_aml_bytes(&mut self.c as &mut dyn AmlSink));
                let delivered = abort.map(|k| k.min(op.b.len())).unwrap_or(op.b.len());
                match r {
                    Ok(()) => {}
                    Err(Caught::ProducerAbort) => cx.probe("fault.producer_abort.fired"),
                    Err(e) => cx.fail(P17, "sink_accepts_bytes", format!("Checksum used as a sink unwound: {:?}", e)),
                }
                self.m += op.b[..delivered].iter().map(|x| *x as i128).sum::<i128>();
                self.hist.push((Op::new(K::CkDelete).b(&op.b[..delivered]), before));
                cx.probe("c17.sink_pushes");
            }
            K::CkUndo => {
                // remove exactly what the most recent not-yet-undone operation added
                if let Some((inv, was)) = self.hist.pop() {
                    match inv.k {
                        K::CkAdd => {
                            self.c.add(inv.arg(0) as u8);
                            self.m += inv.arg(0) as i128
                        }
                        K::CkSub => {
                            self.c.sub(inv.arg(0) as u8);
                            self.m -= inv.arg(0) as i128
                        }
                        K::CkAppend => {
                            self.c.append(&inv.b);
                            self.m += inv.b.iter().map(|x| *x as i128).sum::<i128>()
                        }
                        _ => {
                            self.c.delete(&inv.b);
                            self.m -= inv.b.iter().map(|x| *x as i128).sum::<i128>()
                        }
                    }
                    cx.probe("c17.undo_ops");
                    if self.c.raw_value() != was {
                        cx.fail(P17, "inverse_restores_state", format!("undoing an operation with {} leaves raw value {}, it was {} before the operation", inv.brief(), self.c.raw_value(), was));
                    }
                }
            }
            _ => {}
        }
        Applied::ok()
    }
    fn check(&self, _img: &[u8], cx: &mut Cx) {
        if !cx.on(P17) {
            return;
        }
        let want = self.m.rem_euclid(256) as u8;
        if self.c.raw_value() != want {
            cx.fail(P17, "raw_is_sum_mod_256", format!("raw value is {}, bytes added minus bytes removed is {} mod 256", self.c.raw_value(), want));
        }
        if self.c.raw_value().wrapping_add(self.c.value()) != 0 {
            cx.fail(P17, "raw_plus_checksum_zero", format!("raw value {} + reported checksum {} != 0 mod 256", self.c.raw_value(), self.c.value()));
        }
    }
}

fn len_class(n: usize) -> u64 {
    match n {
        0 => 0,
        1 => 1,
        2..=254 => 2,
        255 => 3,
        256 => 4,
        257..=65535 => 5,
        65536 => 6,
        _ => 7,
    }
}

// ------------------------------------------------------------------------------------------
// driver
// ------------------------------------------------------------------------------------------

fn make_subject(root: &Op, cx: &mut Cx) -> Option<Box<dyn Subject>> {
    let (a, b, c) = oem(root);
    Some(match root.k {
        K::Xsdt | K::Mcfg | K::Madt | K::Srat | K::Hmat | K::Pptt | K::Rhct | K::Rimt | K::Viot | K::Cedt | K::Hest | K::Rqsc => {
            if cx.on(P11) {
                Box::new(TableSubj::with_shadow(root))
            } else {
                Box::new(TableSubj::new(root))
            }
        }
        K::Slit => {
            let n = (root.arg(2) % 1025) as usize;
            Box::new(SlitSubj { t: slit::SLIT::new(a, b, c, n as u32), n, m: vec![10; n * n], last_img: None, touched: vec![0; n * n], lost: false })
        }
        K::SysLocSubj => {
            let (s, i, t) = build::build_sysloc(&Op { k: K::HmSysLoc, a: root.a[2..].to_vec(), b: vec![], s: vec![] });
            let mut r = Op::new(K::SysLocSubj);
            r.a = root.a[2..].to_vec();
            Box::new(SysLocSubj { s, i, t, m: vec![0xffff; i * t], inits: vec![0; i], targs: vec![0; t], root: r, last: None, writes: vec![0; i * t], lists_lost: false })
        }
        K::Tpm2 => {
            let class = if root.arg(2) % 2 == 0 { tpm2::PlatformClass::Client } else { tpm2::PlatformClass::Server };
            use tpm2::StartMethod::*;
            let sm = match root.arg(4) % 7 {
                0 => LegacyUse,
                1 => AcpiStart,
                2 => Mmio,
                3 => Crb,
                4 => CrbAndAcpiStart,
                5 => CrbAndSmcHvc,
                _ => I2cFifo,
            };
            Box::new(Tpm2Subj { t: tpm2::Tpm2::new(a, b, c, class, root.arg(3), sm), has_log: false, last: None })
        }
        K::TcpaServer => {
            let mut r = Op::new(K::TcpaServer);
            r.a = root.a.clone();
            r.b = root.b.clone();
            Box::new(TcpaServerSubj { t: tpm2::TpmServer1_2::new(a, b, c), root: r })
        }
        K::TcpaClient => Box::new(ConstSubj(ConstTab::TcpaClient(tpm2::TpmClient1_2::new(a, b, c, root.arg(2) as u32, root.arg(3))))),
        K::Fadt => {
            let mut r = Op::new(K::Fadt);
            r.a = root.a.clone();
            r.b = root.b.clone();
            Box::new(FadtSubj { b: fadt::FADTBuilder::new(a, b, c), root: r })
        }
        K::Bert => Box::new(ConstSubj(ConstTab::Bert(bert::BERT::new(a, b, c, root.arg(2) as u32, root.arg(3))))),
        K::Spcr => Box::new(ConstSubj(ConstTab::Spcr(spcr::SPCR::sbi(a, b, c)))),
        K::Rsdp => Box::new(ConstSubj(ConstTab::Rsdp(rsdp::Rsdp::new(a, root.arg(2))))),
        K::Facs => Box::new(ConstSubj(ConstTab::Facs(facs::FACS::new()))),
        K::SdtSubj => {
            let len = root.arg(2) as u32;
            let sig = root.arr::<4>(14);
            let rev = root.arg(3) as u8;
            match catch(|| sdt::Sdt::new(sig, len, rev, a, b, c)) {
                Ok(s) => {
                    if len < 36 {
                        cx.stop = true; // below the quantifier's domain and accepted: no verdict
                        return None;
                    }
                    // The reference vector starts from the table's own initial contents: what the
                    // header fields hold is C04's matter. C13 needs the declared length, the Length
                    // field and a zero sum at creation; everything after that is the model's.
                    let m = s.as_slice().to_vec();
                    if m.len() != len as usize {
                        cx.fail(P13, "creation_length", format!("Sdt::new with declared length {} holds {} bytes", len, m.len()));
                        return None;
                    }
                    if le32(&m, 4) != Some(len) {
                        cx.fail(P13, "creation_length", format!("Sdt::new with declared length {} has Length field {:?}", len, le32(&m, 4)));
                    }
                    let _ = (sig, rev);
                    Box::new(SdtSubj { s, m, prev_kind: 0, length_is_tables: true })
                }
                Err(_) => {
                    if len >= 36 {
                        cx.fail(P13, "creation_accepted", format!("Sdt::new refused declared length {}", len));
                    } else {
                        cx.probe("fault.refusal.sdt_new_short_length");
                    }
                    return None;
                }
            }
        }
        K::CksumSubj => Box::new(CksumSubj { c: Checksum::default(), m: 0, hist: Vec::new() }),
        K::AmlSubj => Box::new(crate::amlgen::AmlSubj::new(root)),
        _ => return None,
    })
}

/// Run one trace. `props` selects which properties' invariants are evaluated.
pub fn execute(root: &Op, props: u32, stats_on: bool) -> RunResult {
    execute_mode(root, props, stats_on, false)
}

/// `final_only`: for histories longer than 512 operations observe only the initial and the final
/// state (used by the minimiser on prefixes that end at the violating step: every invariant is a
/// function of the state reached, so the verdict at the last step is the one that matters).
pub fn execute_mode(root: &Op, props: u32, stats_on: bool, final_only: bool) -> RunResult {
    let mut cx = Cx::new(props, root.k);
    cx.stats_on = stats_on;
    let obs_seed = root.arg(1);
    let total = root.s.len();
    cx.cover("subjects", root.k as u64);
    let mut subj = match catch(|| make_subject(root, &mut cx)) {
        Ok(Some(s)) => s,
        Ok(None) => return RunResult { viol: cx.viol, st: cx.st, digest: cx.digest },
        Err(e) => {
            cx.fail(props & props.wrapping_neg(), "constructor_accepted", format!("{} constructor unwound: {:?} [{}]", root.k.name(), e, root.brief()));
            return RunResult { viol: cx.viol, st: cx.st, digest: cx.digest };
        }
    };
    if total == 0 {
        cx.probe("history.empty");
    }
    let mut last_img: Option<Vec<u8>> = None;
    observe(&mut subj, &mut cx, obs_seed, &mut last_img);
    let mut seen_kinds: u64 = 0;
    let mut prev_kind: Option<K> = None;
    let mut i = 0usize;
    while i < total && !cx.stop {
        let op = &root.s[i];
        cx.step = i + 1;
        cx.count("steps", 1);
        cx.log_u64(op.k as u64);
        if op.k == K::ObsAbort {
            if let Ok(reference) = catch(|| to_vec(&AsAml(subj.as_ref()))) {
                c14_abort(&AsAml(subj.as_ref()), &reference, op.arg(0) as usize, root.k, &mut cx);
            }
            i += 1;
            continue;
        }
        let (len0, cnt0) = subj.sizes();
        let ap = subj.apply(op, &mut cx);
        if ap.refused && !ap.refusal_expected {
            // The crate refused an operation the model considers legal. C01/C02/C03/C05 quantify over
            // all sequences of the table's operations and observe after every prefix, so a legal
            // operation that cannot be performed is theirs to report; the other properties say nothing
            // about it and the run just ends.
            cx.probe("unexpected_refusal");
            let p = first_prop(props);
            if p & (P01 | P02 | P03 | P05) != 0 {
                cx.fail(p, "operation_accepted", format!("{} refused legal operation {}", root.k.name(), op.brief()));
            }
            cx.stop = true;
        }
        if !ap.refused {
            if let Some(pk) = prev_kind {
                cx.cover("entry.adjacent_kind_pairs", (pk as u64) << 16 | op.k as u64);
            }
            prev_kind = Some(op.k);
            seen_kinds |= 1u64 << ((op.k as u64) % 64);
        }
        let (len1, cnt1) = subj.sizes();
        // abstract state reached: (subject, entry-count bucket, byte-length bucket, last op kind, refused?)
        cx.cover("abstract_states", (root.k as u64) << 40 | bucket(cnt1) << 32 | bucket(len1) << 24 | (op.k as u64) << 8 | ap.refused as u64);
        let carry = carry_class(len0, len1).max(carry_class(cnt0, cnt1));
        if carry >= 1 {
            cx.probe("carry.byte1");
            if len0 >> 8 != len1 >> 8 {
                cx.cover("carry.subjects_length_crossing_256", root.k as u64);
            }
            if cnt0 >> 8 != cnt1 >> 8 {
                cx.probe("carry.count_255_to_256");
                cx.cover("carry.subjects_count_255_to_256", root.k as u64);
            }
        }
        if carry >= 2 {
            cx.probe("carry.byte2");
            if len0 >> 16 != len1 >> 16 {
                cx.cover("carry.subjects_length_crossing_65536", root.k as u64);
            }
            if cnt0 >> 16 != cnt1 >> 16 {
                cx.probe("carry.count_65535_to_65536");
                cx.cover("carry.subjects_count_65535_to_65536", root.k as u64);
            }
        }
        if carry >= 3 {
            cx.probe("carry.byte3");
        }
        let near = |x: u64, w: u64, sh: u32| -> bool { ((x + w) >> sh) != (x.saturating_sub(w) >> sh) };
        let must = total <= 512
            || i + 1 == total
            || if final_only { false } else { i < 300
            || i + 1 == total
            || near(len1, 3 * (len1 - len0).max(1), 16)
            || near(cnt1, 3, 16)
            || near(len1, 3 * (len1 - len0).max(1), 24)
            // sampled observations thin out as the image grows (cost per observation is linear in it)
            || ((near(len1, 2 * (len1 - len0).max(1), 8) || near(cnt1, 2, 8)) && mix(obs_seed, len1 >> 8) % (16 * (1 + len1 / 65_536)) == 0)
            || mix(obs_seed, i as u64) % (128 * (1 + len1 / 65_536)) == 0 };
        if must && !cx.stop {
            observe(&mut subj, &mut cx, obs_seed, &mut last_img);
        } else {
            last_img = None;
            subj.set_last(None);
            cx.probe("prefixes.skipped");
        }
        i += 1;
    }
    let _ = seen_kinds;
    RunResult { viol: cx.viol, st: cx.st, digest: cx.digest }
}

fn bucket(x: u64) -> u64 {
    // 0, 1, 2, 3-4, 5-8, ... (logarithmic), with the byte boundaries 255/256 and 65535/65536 kept apart
    match x {
        0..=2 => x,
        255 => 40,
        256 => 41,
        65_535 => 42,
        65_536 => 43,
        _ => 3 + (64 - (x - 1).leading_zeros() as u64),
    }
}

fn first_prop(props: u32) -> u32 {
    props & props.wrapping_neg()
}

fn carry_class(a: u64, b: u64) -> u32 {
    if a >> 24 != b >> 24 {
        3
    } else if a >> 16 != b >> 16 {
        2
    } else if a >> 8 != b >> 8 {
        1
    } else {
        0
    }
}

fn observe(subj: &mut Box<dyn Subject>, cx: &mut Cx, obs_seed: u64, last_img: &mut Option<Vec<u8>>) {
    let mut which = mix(obs_seed, cx.step as u64) % SINK_KINDS;
    if which == 3 && subj.sizes().0 as usize > SDT_SINK_MAX {
        which = mix(obs_seed, cx.step as u64 + 1) % 3; // Sdt-as-sink is quadratic in the stream length
    }
    cx.probe("prefixes.observed");
    cx.cover("observation.sink_kinds", which);
    let wrap = AsAml(subj.as_ref());
    let img = match deliver(&wrap, which, cx) {
        Ok(b) => b,
        Err(e) => {
            let p = first_prop(cx.props);
            cx.fail(p, "serialisation_accepted", format!("{} refused to serialise after step {}: {:?}", cx.subject.name(), cx.step, e));
            cx.stop = true;
            return;
        }
    };
    cx.log_bytes(&img);
    cx.count("bytes.observed", img.len() as u64);
    // ---- C01 ----
    if subj.checksummed() && cx.on(P01) && sum8(&img) != 0 {
        cx.fail(P01, "sum_zero", format!("{}: delivered image of {} bytes sums to {} after step {}", cx.subject.name(), img.len(), sum8(&img), cx.step));
    }
    // ---- C12's checksum clause ("the table checksum stays valid throughout") ----
    if subj.checksummed() && cx.on(P12) && matches!(cx.subject, K::Slit | K::Hmat) && sum8(&img) != 0 {
        cx.fail(P12, "checksum_valid_throughout", format!("{}: delivered image of {} bytes sums to {} after step {}", cx.subject.name(), img.len(), sum8(&img), cx.step));
    }
    // ---- C02 ----
    if cx.on(P02) {
        if let Some(off) = subj.length_field() {
            let decl = le32(&img, off);
            if decl != Some(img.len() as u32) || img.len() > u32::MAX as usize {
                cx.fail(P02, "length_equals_emitted", format!("{}: Length field @{} declares {:?}, {} bytes were delivered (step {})", cx.subject.name(), off, decl, img.len(), cx.step));
            }
        }
    }
    subj.check(&img, cx);
    // ---- C14 on the whole table image ----
    if cx.on(P14) {
        let raw = subj.raw();
        c14_object(&wrap, raw.as_deref(), &img, cx.subject, cx);
    }
    subj.set_last(Some(&img));
    *last_img = Some(img);
}
