//! Specification-derived constants and the independent body walker.
//! Nothing here is taken from acpi_tables' source: first-entry offsets, framing of entries,
//! fixed sizes, where counts live — ACPI 6.5 ch. 5 (XSDT, MCFG via PCI FW 3.x, MADT, SRAT, SLIT,
//! HMAT, PPTT, VIOT, HEST), CXL 3.0 §9.17 (CEDT), RISC-V RHCT / RQSC ECRs, and for RIMT the layout
//! pinned by the crate's own golden tests (as the property statement allows).

use crate::op::K;
use crate::sinks::{le16, le32, le64};

#[derive(Clone, Copy, Debug, PartialEq)]
pub enum Framing {
    /// no type/length in the entry; fixed size for every entry
    Fixed(usize),
    /// type u8 @0, length u8 @1
    T8L8,
    /// type u8 @0, length u16 @2
    T8L16,
    /// type u16 @0, length u16 @2
    T16L16,
    /// type u16 @0, length u32 @4
    T16L32,
    /// type u16 @0, size fixed per type (HEST)
    HestByType,
    /// not entry-structured (SLIT: count + N*N bytes)
    Matrix,
}

pub struct TableSpec {
    pub first: usize,
    pub framing: Framing,
    /// header field holding the number of entries: (offset, width)
    pub count: Option<(usize, usize)>,
    /// header field holding the offset of the entry array: (offset, width, value)
    pub array_off: Option<(usize, usize, u64)>,
}

pub fn table_spec(subject: K) -> Option<TableSpec> {
    Some(match subject {
        K::Xsdt => TableSpec { first: 36, framing: Framing::Fixed(8), count: None, array_off: None },
        K::Mcfg => TableSpec { first: 44, framing: Framing::Fixed(16), count: None, array_off: None },
        K::Madt => TableSpec { first: 44, framing: Framing::T8L8, count: None, array_off: None },
        K::Srat => TableSpec { first: 48, framing: Framing::T8L8, count: None, array_off: None },
        K::Hmat => TableSpec { first: 40, framing: Framing::T16L32, count: None, array_off: None },
        K::Pptt => TableSpec { first: 36, framing: Framing::T8L8, count: None, array_off: None },
        K::Rhct => TableSpec { first: 56, framing: Framing::T16L16, count: Some((48, 4)), array_off: Some((52, 4, 56)) },
        K::Rimt => TableSpec { first: 48, framing: Framing::T8L16, count: Some((36, 4)), array_off: Some((40, 4, 48)) },
        K::Viot => TableSpec { first: 48, framing: Framing::T8L16, count: Some((36, 2)), array_off: Some((38, 2, 48)) },
        K::Cedt => TableSpec { first: 36, framing: Framing::T8L16, count: None, array_off: None },
        K::Hest => TableSpec { first: 40, framing: Framing::HestByType, count: Some((36, 4)), array_off: None },
        K::Rqsc => TableSpec { first: 40, framing: Framing::T8L16, count: Some((36, 4)), array_off: None },
        K::Slit => TableSpec { first: 44, framing: Framing::Matrix, count: Some((36, 8)), array_off: None },
        _ => return None,
    })
}

pub fn hest_size(tcode: u32) -> Option<usize> {
    // ACPI 6.5 tables 18.x: AER root port 48, AER endpoint 44, AER bridge 56, GHES 64, GHESv2 92
    Some(match tcode {
        6 => 48,
        7 => 44,
        8 => 56,
        9 => 64,
        10 => 92,
        _ => return None,
    })
}

pub fn rd(img: &[u8], off: usize, width: usize) -> Option<u64> {
    match width {
        1 => img.get(off).map(|x| *x as u64),
        2 => le16(img, off).map(|x| x as u64),
        4 => le32(img, off).map(|x| x as u64),
        8 => le64(img, off),
        _ => None,
    }
}

#[derive(Clone, Copy, Debug, PartialEq)]
pub struct Extent {
    pub tcode: u32,
    pub off: usize,
    pub len: usize,
}

/// Walk the body by the entries' own length fields. Err = the walk cannot tile the image.
pub fn walk(subject: K, img: &[u8]) -> Result<Vec<Extent>, String> {
    let sp = table_spec(subject).ok_or("no table spec")?;
    let mut out = Vec::new();
    if sp.framing == Framing::Matrix {
        return Ok(out);
    }
    if img.len() < sp.first {
        return Err(format!("image of {} bytes is shorter than the first-entry offset {}", img.len(), sp.first));
    }
    let mut p = sp.first;
    while p < img.len() {
        let (tcode, len) = match sp.framing {
            Framing::Fixed(n) => (0u32, n),
            Framing::T8L8 => {
                if p + 2 > img.len() {
                    return Err(format!("entry header at {} runs past the end ({})", p, img.len()));
                }
                (img[p] as u32, img[p + 1] as usize)
            }
            Framing::T8L16 => {
                if p + 4 > img.len() {
                    return Err(format!("entry header at {} runs past the end ({})", p, img.len()));
                }
                (img[p] as u32, le16(img, p + 2).unwrap() as usize)
            }
            Framing::T16L16 => {
                if p + 4 > img.len() {
                    return Err(format!("entry header at {} runs past the end ({})", p, img.len()));
                }
                (le16(img, p).unwrap(), le16(img, p + 2).unwrap() as usize)
            }
            Framing::T16L32 => {
                if p + 8 > img.len() {
                    return Err(format!("entry header at {} runs past the end ({})", p, img.len()));
                }
                (le16(img, p).unwrap(), le32(img, p + 4).unwrap() as usize)
            }
            Framing::HestByType => {
                if p + 2 > img.len() {
                    return Err(format!("entry header at {} runs past the end ({})", p, img.len()));
                }
                let t = le16(img, p).unwrap();
                match hest_size(t) {
                    Some(n) => (t, n),
                    None => return Err(format!("entry at {} has type {} which has no specified size", p, t)),
                }
            }
            Framing::Matrix => unreachable!(),
        };
        if len == 0 {
            return Err(format!("entry #{} at {} (type {}) declares length 0", out.len(), p, tcode));
        }
        if p + len > img.len() {
            return Err(format!("entry #{} at {} (type {}) declares length {} but only {} bytes remain", out.len(), p, tcode, len, img.len() - p));
        }
        out.push(Extent { tcode, off: p, len });
        p += len;
    }
    Ok(out)
}

/// Sub-array / string / count fields inside one entry `e` (the entry's bytes in the image) against
/// what the walk can see: entry length = fixed part + n × element size, offsets, string lengths.
/// `subn` is the number of sub-elements the caller supplied, `aux` kind-specific (see build.rs).
pub fn entry_summary(subject: K, kind: K, e: &[u8], subn: u32, aux: u64) -> Result<(), String> {
    let need = |n: usize| -> Result<(), String> {
        if e.len() < n {
            Err(format!("{} entry of {} bytes is shorter than its fixed part {}", kind.name(), e.len(), n))
        } else {
            Ok(())
        }
    };
    let eq = |what: &str, got: u64, want: u64| -> Result<(), String> {
        if got != want {
            Err(format!("{}: {} is {} but the body shows {}", kind.name(), what, got, want))
        } else {
            Ok(())
        }
    };
    match (subject, kind) {
        (K::Pptt, K::PpProc) => {
            need(20)?;
            let n = le32(e, 16).unwrap() as u64;
            eq("private-resource count @16", n, subn as u64)?;
            eq("length @1", e[1] as u64, 20 + 4 * n)?;
        }
        (K::Hmat, K::HmSysLoc) => {
            need(32)?;
            let i = le32(e, 12).unwrap() as u64;
            let t = le32(e, 16).unwrap() as u64;
            eq("initiator count @12", i, aux >> 32)?;
            eq("target count @16", t, aux & 0xffff_ffff)?;
            eq("length @4", le32(e, 4).unwrap() as u64, 32 + 4 * i + 4 * t + 2 * i * t)?;
        }
        (K::Hmat, K::HmMsc) => {
            need(32)?;
            let n = le16(e, 30).unwrap() as u64;
            eq("SMBIOS handle count @30", n, subn as u64)?;
            eq("length @4", le32(e, 4).unwrap() as u64, 32 + 2 * n)?;
        }
        (K::Rimt, K::RiIommu) => {
            need(32)?;
            let n = le16(e, 28).unwrap() as u64;
            let off = le16(e, 30).unwrap() as u64;
            eq("interrupt-wire count @28", n, subn as u64)?;
            // the array offset must be where the array is: the wires are the tail of the record
            eq("length @2 versus interrupt-wire array offset @30 + 8 per wire", le16(e, 2).unwrap() as u64, off + 8 * n)?;
            if off < 32 {
                return Err(format!("RiIommu: interrupt-wire array offset @30 is {}, inside the fixed part", off));
            }
        }
        (K::Rimt, K::RiRc) => {
            need(16)?;
            let off = le16(e, 12).unwrap() as u64;
            let n = le16(e, 14).unwrap() as u64;
            eq("id-mapping count @14", n, subn as u64)?;
            eq("length @2 versus id-mapping array offset @12 + 20 per mapping", le16(e, 2).unwrap() as u64, off + 20 * n)?;
            if off < 16 {
                return Err(format!("RiRc: id-mapping array offset @12 is {}, inside the fixed part", off));
            }
        }
        (K::Rimt, K::RiPlatform) => {
            need(13)?;
            let off = le16(e, 8).unwrap() as u64;
            let n = le16(e, 10).unwrap() as u64;
            let name_len = aux & 0xffff_ffff;
            if aux >> 32 == 0 {
                // a name without embedded NUL: the terminator is where the string ends
                let nul = e[12..].iter().position(|x| *x == 0).ok_or("platform name is not NUL-terminated")? as u64;
                eq("name length", nul, name_len)?;
            } else if e.get(12 + name_len as usize) != Some(&0) {
                return Err("platform name is not NUL-terminated".into());
            }
            eq("id-mapping array offset @8", off, 12 + name_len + 1)?;
            eq("id-mapping count @10", n, subn as u64)?;
            eq("length @2", le16(e, 2).unwrap() as u64, off + 20 * n)?;
        }
        (K::Rhct, K::RhIsa) => {
            need(8)?;
            let sl = le16(e, 6).unwrap() as u64; // includes the NUL
            eq("ISA string length @6", sl, aux + 1)?;
            let padded = (8 + sl + 1) & !1;
            eq("length @2", le16(e, 2).unwrap() as u64, padded)?;
            if e.len() as u64 >= 8 + sl && sl > 0 {
                let s = &e[8..8 + sl as usize];
                if s[s.len() - 1] != 0 {
                    return Err("ISA string is not NUL-terminated at its declared length".into());
                }
                if s[..s.len() - 1].iter().any(|x| *x == 0) {
                    return Err("ISA string contains an early NUL".into());
                }
            }
        }
        (K::Rhct, K::RhHartInfo) => {
            need(12)?;
            let n = le16(e, 6).unwrap() as u64;
            eq("offset count @6", n, subn as u64)?;
            eq("length @2", le16(e, 2).unwrap() as u64, 12 + 4 * n)?;
        }
        (K::Cedt, K::CeCxims) => {
            need(8)?;
            let n = e[7] as u64;
            eq("NIB @7", n, subn as u64)?;
            eq("record length @2", le16(e, 2).unwrap() as u64, 8 + 8 * n)?;
        }
        (K::Cedt, K::CeCfmws) => {
            need(36)?;
            let eniw = e[24];
            let niw = match eniw {
                0..=4 => 1u64 << eniw,
                8..=10 => 3u64 << (eniw - 8),
                _ => return Err(format!("CFMWS ENIW @24 has undefined encoding {}", eniw)),
            };
            eq("interleave ways (decoded ENIW @24)", niw, subn as u64)?;
            eq("record length @2", le16(e, 2).unwrap() as u64, 36 + 4 * niw)?;
        }
        (K::Rqsc, K::RqController) => {
            need(28)?;
            let n = le16(e, 26).unwrap() as u64;
            eq("resource count @26", n, subn as u64)?;
            // walk the resources by their own length fields
            let mut p = 28usize;
            let mut seen = 0u64;
            while p < e.len() {
                if p + 4 > e.len() {
                    return Err(format!("resource header at {} runs past the controller", p));
                }
                let l = le16(e, p + 2).unwrap() as usize;
                // a resource header is 8 bytes (type, reserved, length, flags, reserved, id type)
                if l < 8 || p + l > e.len() {
                    return Err(format!("resource #{} at {} declares length {} (controller has {} bytes left)", seen, p, l, e.len() - p));
                }
                p += l;
                seen += 1;
            }
            eq("resources found by walking", seen, n)?;
        }
        _ => {}
    }
    Ok(())
}
