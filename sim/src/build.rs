//! Construction of real acpi_tables entry objects from `Op` descriptions.
//! All of this runs the crate's real public constructors and builders; nothing is stubbed.

use crate::op::{Op, K};
use crate::sinks::{catch, Caught};
use acpi_tables::gas::{AccessSize, AddressSpace, GAS};
use acpi_tables::*;
use zerocopy::IntoBytes;

/// handles minted so far by the table under simulation, with the index of the model entry
#[derive(Default)]
pub struct Handles {
    pub proc_: Vec<(pptt::ProcessorHandle, usize)>,
    pub cache: Vec<(pptt::CacheHandle, usize)>,
    pub isa: Vec<(rhct::IsaStringHandle, usize)>,
    pub cmo: Vec<(rhct::CmoHandle, usize)>,
    pub iommu: Vec<(rimt::IommuOffset, usize)>,
    pub trans: Vec<(viot::TranslationHandle, usize)>,
}

/// handle classes (for C05 expected node types)
pub const HC_PROC: u8 = 1;
pub const HC_CACHE: u8 = 2;
pub const HC_ISA: u8 = 3;
pub const HC_CMO: u8 = 4;
pub const HC_IOMMU: u8 = 5;
pub const HC_TRANS: u8 = 6;

/// a reference field inside an entry: at `off` (entry-relative), `width` bytes, built from the
/// handle of model entry `target`, whose raw value was `raw` when the field was built
#[derive(Clone, Debug)]
pub struct RefF {
    pub off: u32,
    pub width: u8,
    pub target: usize,
    pub raw: u32,
    pub class: u8,
}

/// A caller-defined MADT payload: `MADT::add_structure` accepts any `Aml + IntoBytes` type, so a
/// caller may add a block of pre-encoded structures. This one is two 8-byte local-APIC structures.
#[repr(C, packed)]
#[derive(Clone, Copy, zerocopy::IntoBytes, zerocopy::Immutable)]
pub struct RawPair(pub [u8; 16]);
impl Aml for RawPair {
    fn to_aml_bytes(&self, sink: &mut dyn AmlSink) {
        sink.vec(&self.0);
    }
}

pub enum Built {
    RawPair(RawPair),
    U64(u64),
    Ecam(u64, u16, u8, u8),
    Lapic(madt::ProcessorLocalApic),
    IoApic(madt::IoApic),
    Gicc(madt::Gicc),
    Gicd(madt::Gicd),
    GicMsi(madt::GicMsi),
    Gicr(madt::Gicr),
    GicIts(madt::GicIts),
    Rintc(madt::RINTC),
    Imsic(madt::IMSIC),
    Aplic(madt::APLIC),
    Plic(madt::PLIC),
    MemAff(srat::MemoryAffinity),
    GenInit(srat::GenericInitiator),
    RintcAff(srat::RintcAffinity),
    MemProx(hmat::MemoryProximityDomain),
    SysLoc(hmat::SystemLocality),
    Msc(hmat::MemorySideCache),
    Proc(pptt::ProcessorNode),
    Cache(pptt::CacheNode),
    Isa(&'static str, rhct::IsaStringNode),
    Mmu(u8, rhct::MmuNode),
    Cmo(rhct::CmoNode),
    HartInfo(rhct::HartInfoNode),
    Iommu(rimt::Iommu),
    Rc(rimt::PcieRootComplex),
    Platform(rimt::Platform),
    PciRange(viot::PciRange),
    MmioEp(viot::MmioEndpoint),
    VPci(viot::VirtIoPciIommu),
    VMmio(viot::VirtIoMmioIommu),
    Chbs(cedt::CxlHostBridge),
    Cfmws(cedt::CxlFixedMemory),
    Cxims(cedt::XorInterleaveMath),
    Rdpas(cedt::PortAssociation),
    AerRoot(hest::PcieAerRootPort),
    AerDev(hest::PcieAerDevice),
    AerBridge(hest::PcieAerBridge),
    Ghes(hest::GenericHardwareSource),
    GhesV2(hest::GenericHardwareSourceV2),
    Controller(rqsc::QoSController),
}

impl Built {
    /// the entry as a producer (None for XSDT/MCFG entries, which are plain arguments)
    pub fn aml(&self) -> Option<&dyn Aml> {
        Some(match self {
            Built::U64(_) | Built::Ecam(..) => return None,
            Built::RawPair(x) => x,
            Built::Lapic(x) => x,
            Built::IoApic(x) => x,
            Built::Gicc(x) => x,
            Built::Gicd(x) => x,
            Built::GicMsi(x) => x,
            Built::Gicr(x) => x,
            Built::GicIts(x) => x,
            Built::Rintc(x) => x,
            Built::Imsic(x) => x,
            Built::Aplic(x) => x,
            Built::Plic(x) => x,
            Built::MemAff(x) => x,
            Built::GenInit(x) => x,
            Built::RintcAff(x) => x,
            Built::MemProx(x) => x,
            Built::SysLoc(x) => x,
            Built::Msc(x) => x,
            Built::Proc(x) => x,
            Built::Cache(x) => x,
            Built::Isa(_, x) => x,
            Built::Mmu(_, x) => x,
            Built::Cmo(x) => x,
            Built::HartInfo(x) => x,
            Built::Iommu(x) => x,
            Built::Rc(x) => x,
            Built::Platform(x) => x,
            Built::PciRange(x) => x,
            Built::MmioEp(x) => x,
            Built::VPci(x) => x,
            Built::VMmio(x) => x,
            Built::Chbs(x) => x,
            Built::Cfmws(x) => x,
            Built::Cxims(x) => x,
            Built::Rdpas(x) => x,
            Built::AerRoot(x) => x,
            Built::AerDev(x) => x,
            Built::AerBridge(x) => x,
            Built::Ghes(x) => x,
            Built::GhesV2(x) => x,
            Built::Controller(x) => x,
        })
    }

    /// raw in-memory form, for the structures that can be added to a table through it
    pub fn raw(&self) -> Option<&[u8]> {
        Some(match self {
            Built::RawPair(x) => x.as_bytes(),
            Built::Lapic(x) => x.as_bytes(),
            Built::IoApic(x) => x.as_bytes(),
            Built::Gicc(x) => x.as_bytes(),
            Built::Gicd(x) => x.as_bytes(),
            Built::GicMsi(x) => x.as_bytes(),
            Built::Gicr(x) => x.as_bytes(),
            Built::GicIts(x) => x.as_bytes(),
            Built::Rintc(x) => x.as_bytes(),
            Built::Imsic(x) => x.as_bytes(),
            Built::Aplic(x) => x.as_bytes(),
            Built::Plic(x) => x.as_bytes(),
            Built::RintcAff(x) => x.as_bytes(),
            Built::MemProx(x) => x.as_bytes(),
            Built::Cache(x) => x.as_bytes(),
            Built::AerRoot(x) => x.as_bytes(),
            Built::AerDev(x) => x.as_bytes(),
            Built::AerBridge(x) => x.as_bytes(),
            Built::Ghes(x) => x.as_bytes(),
            Built::GhesV2(x) => x.as_bytes(),
            _ => return None,
        })
    }
}

pub struct BuiltEntry {
    pub b: Built,
    /// the specification's type code for this kind of entry
    pub tcode: u32,
    pub refs: Vec<RefF>,
    /// number of sub-elements the op asked for (resources, wires, mappings, handles, ...)
    pub subn: u32,
    /// kind-specific extra (string length, I and T of a locality matrix packed, ...)
    pub aux: u64,
}

// ---------- enum normalisation (argument modulo number of variants) ----------

pub fn madt_status(v: u64) -> madt::EnabledStatus {
    match v % 3 {
        0 => madt::EnabledStatus::Disabled,
        1 => madt::EnabledStatus::Enabled,
        _ => madt::EnabledStatus::DisabledOnlineCapable,
    }
}
pub fn hart_status(v: u64) -> madt::HartStatus {
    match v % 3 {
        0 => madt::HartStatus::Disabled,
        1 => madt::HartStatus::Enabled,
        _ => madt::HartStatus::OnlineCapable,
    }
}
fn trigger(v: u64) -> madt::Trigger {
    if v % 2 == 0 {
        madt::Trigger::Edge
    } else {
        madt::Trigger::Level
    }
}
fn gic_version(v: u64) -> madt::GicVersion {
    match v % 5 {
        0 => madt::GicVersion::Unspecified,
        1 => madt::GicVersion::GICv1,
        2 => madt::GicVersion::GICv2,
        3 => madt::GicVersion::GICv3,
        _ => madt::GicVersion::GICv4,
    }
}
pub fn addr_space(v: u64) -> AddressSpace {
    match v % 13 {
        0 => AddressSpace::SystemMemory,
        1 => AddressSpace::SystemIo,
        2 => AddressSpace::PciConfigSpace,
        3 => AddressSpace::EmbeddedController,
        4 => AddressSpace::Smbus,
        5 => AddressSpace::SystemCmos,
        6 => AddressSpace::PciBarTarget,
        7 => AddressSpace::Ipmi,
        8 => AddressSpace::GeneralPursposeIo,
        9 => AddressSpace::GenericSerialBus,
        10 => AddressSpace::PlatformCommunicationsChannel,
        11 => AddressSpace::PlatformRuntimeMechanism,
        _ => AddressSpace::FunctionalFixedHardware,
    }
}
pub fn access_size(v: u64) -> AccessSize {
    match v % 5 {
        0 => AccessSize::Undefined,
        1 => AccessSize::ByteAccess,
        2 => AccessSize::WordAccess,
        3 => AccessSize::DwordAccess,
        _ => AccessSize::QwordAccess,
    }
}
/// GAS from five consecutive args starting at `i`
pub fn gas_at(op: &Op, i: usize) -> GAS {
    GAS::new(addr_space(op.arg(i)), op.arg(i + 1) as u8, op.arg(i + 2) as u8, access_size(op.arg(i + 3)), op.arg(i + 4))
}
fn notif_type(v: u64) -> hest::NotificationType {
    use hest::NotificationType::*;
    match v % 16 {
        0 => Polled,
        1 => ExternalIrq,
        2 => LocalIrq,
        3 => Sci,
        4 => Nmi,
        5 => Cmci,
        6 => Mce,
        7 => GpioSignal,
        8 => Armv8Sea,
        9 => Armv8Sei,
        10 => ExternalGsiv,
        11 => SoftwareException,
        12 => RiscvSupervisorSoftwareEvent,
        13 => RiscvLowPriorityRasInterrupt,
        14 => RiscvHighPriorityRasInterrupt,
        _ => RiscvHardwareErrorException,
    }
}

pub const ISA_MASTERS: [&str; 4] = [
    // as read from a device tree or a config file: blanks, tabs and newlines in and after the string
    "rv64imafdc \t_zicbom\n_zicbop  _zicboz\r\n_sstc \n\n_svpbmt\t\t_zba _zbb _zbs \n",
    "rv64imafdch_zicbom_zicbop_zicboz_zicntr_zicsr_zifencei_zihintpause_zihpm_zba_zbb_zbs_sstc_svinval_svnapot_svpbmt_smaia_ssaia_sscofpmf_zfh_zfhmin_zkt_zvl128b_zve64d_xrivosvisni_xrivosvizip_abcdefghijklmnopqrstuvwxyz0123456789_abcdefghijklmnopqrstuvwxyz",
    "RV32IMAC",
    "rv64gcv_zba_zbb_zbc_zbs_zicbom_zicboz_svpbmt_sstc_aaaaaaaaaaaaaaaaaaaaaaaaaaaaaaaaaaaaaaaaaaaaaaaaaaaaaaaaaaaaaaaaaaaaaaaaaaaaaaaaaaaaaaaaaaaaaaaaaaaaaaaaaaaaaaaaaaaaaaaaaaaaaaaaaaaaaaaaaaaaaaaaaaaaaaaaaaaaaaaaaaaaaaaaaaaaaaaaaaaaaaaaaaaaaaaaaaaaaaaaaaaaaaaaaaaaaaaaaaaaaaaaaaaaaaaaaaaaaaaaaaaaaaaaaaaaaaaaaaaaaaaaaaaaaaaaaaaaaaaaaaaaaaaaaaaa",
];

pub fn isa_str(op: &Op) -> &'static str {
    let m = ISA_MASTERS[(op.arg(1) % ISA_MASTERS.len() as u64) as usize];
    let n = (op.arg(0) as usize) % (m.len() + 1);
    &m[..n]
}

fn name_string(b: &[u8]) -> String {
    // any String the caller may pass: 7-bit characters including NUL and control characters, and
    // (bytes >= 0xf0) non-ASCII characters that take two bytes in UTF-8
    b.iter().map(|x| if *x >= 0xf0 { char::from(*x) } else { (x & 0x7f) as char }).collect()
}

fn rimt_maps(ops: &[Op], h: &Handles, base_off: u32, refs: &mut Vec<RefF>) -> Option<Vec<rimt::IdMapping>> {
    // a mapping needs an IOMMU handle; without any, mappings are dropped
    if h.iommu.is_empty() {
        return Some(Vec::new());
    }
    let mut v = Vec::new();
    for m in ops.iter().filter(|o| o.k == K::RiMap) {
        let (hd, target) = &h.iommu[(m.arg(3) % h.iommu.len() as u64) as usize];
        refs.push(RefF { off: base_off + 20 * v.len() as u32 + 12, width: 4, target: *target, raw: hd.verif_raw(), class: HC_IOMMU });
        v.push(rimt::IdMapping::new(m.arg(0) as u32, m.arg(1) as u32, m.arg(2) as u32, *hd, m.arg(4) & 1 == 1, m.arg(5) & 1 == 1, m.arg(6) & 1 == 1));
    }
    Some(v)
}

macro_rules! apply_set {
    ($obj:ident, $o:ident, [$($idx:expr => $m:ident : $t:ty),* $(,)?]) => {
        match $o.arg(0) { $($idx => $obj = $obj.$m($o.arg(1) as $t),)* _ => {} }
    };
}

/// number of selectable fields of `HeSet` per HEST structure kind
pub fn he_set_fields(k: K) -> u64 {
    match k {
        K::HeAerRoot => 8,
        K::HeAerDev => 7,
        K::HeAerBridge => 10,
        K::HeGhes => 6,
        K::HeGhesV2 => 9,
        _ => 1,
    }
}

/// Build the real entry object described by `op`. A refusal by one of the crate's constructors
/// (assert!) comes back as Err.
pub fn build(op: &Op, h: &Handles) -> Result<Option<BuiltEntry>, Caught> {
    catch(|| build_inner(op, h))
}

fn build_inner(op: &Op, h: &Handles) -> Option<BuiltEntry> {
    let mut refs = Vec::new();
    let mut subn = 0u32;
    let mut aux = 0u64;
    let (b, tcode) = match op.k {
        K::XAddEntry => (Built::U64(op.arg(0)), 0),
        K::McAddEcam => (Built::Ecam(op.arg(0), op.arg(1) as u16, op.arg(2) as u8, op.arg(3) as u8), 0),
        // ---------------- MADT ----------------
        K::MaLapic => (Built::Lapic(madt::ProcessorLocalApic::new(op.arg(0) as u8, op.arg(1) as u8, madt_status(op.arg(2)))), 0),
        K::MaRawPair => {
            // two local-APIC structures (type 0, length 8, uid, apic id, flags) in one caller-defined block
            let mut b = [0u8; 16];
            for (i, base) in [0usize, 8].iter().enumerate() {
                b[*base] = 0;
                b[*base + 1] = 8;
                b[*base + 2] = op.arg(2 * i) as u8;
                b[*base + 3] = op.arg(2 * i + 1) as u8;
                b[*base + 4..*base + 8].copy_from_slice(&((op.arg(4 + i) % 3) as u32).to_le_bytes());
            }
            (Built::RawPair(RawPair(b)), 0)
        }
        K::MaIoApic => (Built::IoApic(madt::IoApic::new(op.arg(0) as u8, op.arg(1) as u32, op.arg(2) as u32)), 1),
        K::MaGicc => {
            let mut g = madt::Gicc::new(madt_status(op.arg(0)));
            for o in &op.s {
                match o.k {
                    K::GcPerfInt => g = g.performance_interrupt(o.arg(0) as u32, trigger(o.arg(1))),
                    K::GcMaintInt => g = g.maintenance_interrupt(o.arg(0) as u32, trigger(o.arg(1))),
                    K::GcSet => apply_set!(g, o, [
                        0 => cpu_interface_number: u32, 1 => acpi_processor_uid: u32, 2 => parking_protocol_version: u32,
                        3 => parked_address: u64, 4 => base_address: u64, 5 => virtual_registers: u64,
                        6 => control_block_registers: u64, 7 => redistributor_base: u64, 8 => mpidr: u64,
                        9 => power_efficiency_class: u8, 10 => overflow_interrupt: u16, 11 => trbe_interrupt: u16]),
                    _ => {}
                }
            }
            (Built::Gicc(g), 0xb)
        }
        K::MaGicd => (Built::Gicd(madt::Gicd::new(op.arg(0) as u32, op.arg(1), gic_version(op.arg(2)))), 0xc),
        K::MaGicMsi => {
            let mut g = madt::GicMsi::new();
            for o in &op.s {
                match o.k {
                    K::MsFrameId => g = g.gic_msi_frame_id(o.arg(0) as u32),
                    K::MsBase => g = g.base_addr(o.arg(0)),
                    K::MsSpi => g = g.spi_count_and_base(o.arg(0) as u16, o.arg(1) as u16),
                    _ => {}
                }
            }
            (Built::GicMsi(g), 0xd)
        }
        K::MaGicr => (Built::Gicr(madt::Gicr::new(op.arg(0), op.arg(1) as u32)), 0xe),
        K::MaGicIts => (Built::GicIts(madt::GicIts::new(op.arg(0) as u32, op.arg(1))), 0xf),
        K::MaRintc => (
            Built::Rintc(madt::RINTC::new(hart_status(op.arg(0)), op.arg(1), op.arg(2) as u32, op.arg(3) as u32, op.arg(4), op.arg(5) as u32)),
            0x18,
        ),
        K::MaImsic => (
            Built::Imsic(madt::IMSIC::new(op.arg(0) as u16, op.arg(1) as u16, op.arg(2) as u8, op.arg(3) as u8, op.arg(4) as u8, op.arg(5) as u8)),
            0x19,
        ),
        K::MaAplic => (
            Built::Aplic(madt::APLIC::new(op.arg(0) as u8, op.arr::<8>(0), op.arg(1) as u16, op.arg(2) as u32, op.arg(3), op.arg(4) as u32, op.arg(5) as u16)),
            0x1a,
        ),
        K::MaPlic => (
            Built::Plic(madt::PLIC::new(op.arg(0) as u8, op.arr::<8>(0), op.arg(1) as u16, op.arg(2) as u16, op.arg(3) as u32, op.arg(4), op.arg(5) as u32)),
            0x1b,
        ),
        // ---------------- SRAT ----------------
        K::SrMemAff => {
            let mut m = srat::MemoryAffinity::new(op.arg(0) as u32, op.arg(1), op.arg(2));
            for o in &op.s {
                match o.k {
                    K::OptEnabled => m = m.enabled(),
                    K::OptHotplug => m = m.hotpluggable(),
                    K::OptNonVolatile => m = m.nonvolatile(),
                    _ => {}
                }
            }
            (Built::MemAff(m), 1)
        }
        K::SrGenInit => {
            let hd = if op.arg(1) % 2 == 0 {
                srat::Handle::new_acpi(op.arr::<8>(0), op.arr::<4>(8))
            } else {
                srat::Handle::new_pci(op.arg(2) as u16, op.arg(3) as u8, op.arg(4) as u8, op.arg(5) as u8)
            };
            let mut g = srat::GenericInitiator::new(op.arg(0) as u32, hd);
            for o in &op.s {
                match o.k {
                    K::OptEnabled => g = g.enabled(),
                    K::OptArch => g = g.architectural(),
                    _ => {}
                }
            }
            (Built::GenInit(g), 5)
        }
        K::SrRintcAff => {
            let mut r = srat::RintcAffinity::new(op.arr::<4>(0), op.arg(0) as u32);
            for o in &op.s {
                match o.k {
                    K::OptEnabled => r = r.enabled(),
                    K::OptProxDomain => r = crate::compat::rintc_aff_prox(r, o.arg(0) as u32),
                    _ => {}
                }
            }
            (Built::RintcAff(r), 7)
        }
        // ---------------- HMAT ----------------
        K::HmMemProx => (Built::MemProx(hmat::MemoryProximityDomain::new(op.arg(0) as u32, op.arg(1) as u32)), 0),
        K::HmSysLoc => {
            let (s, i, t) = build_sysloc(op);
            aux = ((i as u64) << 32) | t as u64;
            (Built::SysLoc(s), 1)
        }
        K::HmMsc => {
            let lvl = |v: u64| match v % 4 {
                0 => hmat::CacheLevel::None,
                1 => hmat::CacheLevel::One,
                2 => hmat::CacheLevel::Two,
                _ => hmat::CacheLevel::Three,
            };
            let assoc = match op.arg(4) % 3 {
                0 => hmat::Associativity::None,
                1 => hmat::Associativity::DirectMapped,
                _ => hmat::Associativity::Complex,
            };
            let wp = match op.arg(5) % 3 {
                0 => hmat::WritePolicy::None,
                1 => hmat::WritePolicy::Writeback,
                _ => hmat::WritePolicy::Writethrough,
            };
            let mut c = hmat::MemorySideCache::new(op.arg(0) as u32, op.arg(1), lvl(op.arg(2)), lvl(op.arg(3)), assoc, wp, op.arg(6) as u16);
            for o in op.s.iter().filter(|o| o.k == K::MscHandle) {
                c.add_smbios_handle(o.arg(0) as u16);
                subn += 1;
            }
            (Built::Msc(c), 2)
        }
        // ---------------- PPTT ----------------
        K::PpProc => {
            let parent = if op.arg(0) == 0 || h.proc_.is_empty() {
                None
            } else {
                Some(&h.proc_[((op.arg(0) - 1) % h.proc_.len() as u64) as usize])
            };
            if let Some((hd, t)) = parent {
                refs.push(RefF { off: 8, width: 4, target: *t, raw: hd.verif_raw(), class: HC_PROC });
            }
            let mut n = pptt::ProcessorNode::new(parent.map(|p| &p.0), op.arg(1) as u32);
            for o in &op.s {
                match o.k {
                    K::PnPhysical => n = n.physical(),
                    K::PnValid => n = n.valid(),
                    K::PnThread => n = n.thread(),
                    K::PnLeaf => n = n.leaf(),
                    K::PnIdentical => n = n.identical(),
                    K::PnAddCache if !h.cache.is_empty() => {
                        let (hd, t) = &h.cache[(o.arg(0) % h.cache.len() as u64) as usize];
                        refs.push(RefF { off: 20 + 4 * subn, width: 4, target: *t, raw: hd.verif_raw(), class: HC_CACHE });
                        n = n.add_cache(hd);
                        subn += 1;
                    }
                    _ => {}
                }
            }
            (Built::Proc(n), 0)
        }
        K::PpCache => {
            let mut c = pptt::CacheNodeBuilder::default();
            for o in &op.s {
                match o.k {
                    K::CnNextLevel if !h.cache.is_empty() => {
                        let (hd, t) = &h.cache[(o.arg(0) % h.cache.len() as u64) as usize];
                        refs.retain(|r| r.off != 8);
                        refs.push(RefF { off: 8, width: 4, target: *t, raw: hd.verif_raw(), class: HC_CACHE });
                        c = c.next_level(hd);
                    }
                    K::CnSize => c = c.size(o.arg(0) as u32),
                    K::CnSets => c = c.sets(o.arg(0) as u32),
                    K::CnAssoc => c = c.associativity(o.arg(0) as u8),
                    K::CnAlloc => {
                        c = c.allocation_type(match o.arg(0) % 3 {
                            0 => pptt::AllocationType::Read,
                            1 => pptt::AllocationType::Write,
                            _ => pptt::AllocationType::Both,
                        })
                    }
                    K::CnType => {
                        c = c.cache_type(match o.arg(0) % 3 {
                            0 => pptt::CacheType::Data,
                            1 => pptt::CacheType::Instruction,
                            _ => pptt::CacheType::Unified,
                        })
                    }
                    K::CnPolicy => {
                        c = c.write_policy(if o.arg(0) % 2 == 0 { pptt::WritePolicy::Writeback } else { pptt::WritePolicy::Writethrough })
                    }
                    K::CnLineSize => c = c.line_size(o.arg(0) as u16),
                    K::CnId => c = c.id(o.arg(0) as u32),
                    _ => {}
                }
            }
            (Built::Cache(c.to_node()), 1)
        }
        // ---------------- RHCT ----------------
        K::RhIsa => {
            let s = isa_str(op);
            aux = s.len() as u64;
            (Built::Isa(s, rhct::IsaStringNode::new(s)), 0)
        }
        K::RhMmu => {
            let sc = |v: u64| match v % 3 {
                0 => rhct::VirtualAddressScheme::Sv39,
                1 => rhct::VirtualAddressScheme::Sv48,
                _ => rhct::VirtualAddressScheme::Sv57,
            };
            (Built::Mmu((op.arg(0) % 3) as u8, rhct::MmuNode::new(sc(op.arg(0)))), 2)
        }
        K::RhCmo => (Built::Cmo(rhct::CmoNode::new(op.arg(0) as u8, op.arg(1) as u8, op.arg(2) as u8)), 1),
        K::RhHartInfo => {
            if h.isa.is_empty() {
                return None;
            }
            let (hd, t) = &h.isa[(op.arg(1) % h.isa.len() as u64) as usize];
            refs.push(RefF { off: 12, width: 4, target: *t, raw: hd.verif_raw(), class: HC_ISA });
            let mut hi = rhct::HartInfoNode::new(op.arg(0) as u32, hd);
            subn = 1;
            for o in op.s.iter().filter(|o| o.k == K::HiCmo) {
                if h.cmo.is_empty() {
                    continue;
                }
                let (hd, t) = &h.cmo[(o.arg(0) % h.cmo.len() as u64) as usize];
                refs.push(RefF { off: 12 + 4 * subn, width: 4, target: *t, raw: hd.verif_raw(), class: HC_CMO });
                hi = hi.with_cmo(hd);
                subn += 1;
            }
            (Built::HartInfo(hi), 65535)
        }
        // ---------------- RIMT ----------------
        K::RiIommu => {
            // a[0]=id a[1]=presence bits (1 base, 2 pci, 4 pd, 8 wires-some) a[2]=base a[3..7]=seg,bus,dev,fn a[7]=pd
            let p = op.arg(1);
            let base = if p & 1 != 0 { Some(op.arg(2)) } else { None };
            let pci = if p & 2 != 0 { Some(rimt::PciDevice::new(op.arg(3) as u16, op.arg(4) as u8, op.arg(5) as u8, op.arg(6) as u8)) } else { None };
            let pd = if p & 4 != 0 { Some(op.arg(7) as u32) } else { None };
            let wires: Vec<rimt::InterruptWire> = op
                .s
                .iter()
                .filter(|o| o.k == K::RiWire)
                .map(|o| rimt::InterruptWire::new(o.arg(0) as u32, o.arg(1) & 1 == 1, o.arg(2) & 1 == 1, o.arg(3) as u16))
                .collect();
            subn = wires.len() as u32;
            let wires = if p & 8 != 0 || !wires.is_empty() { Some(wires) } else { None };
            (Built::Iommu(rimt::Iommu::new(op.arg(0) as u16, base, pci, pd, wires)), 0)
        }
        K::RiRc => {
            // a[0]=id a[1]=segment a[2]=ats a[3]=pri a[4]=mappings-some
            let maps = rimt_maps(&op.s, h, 16, &mut refs).unwrap();
            subn = maps.len() as u32;
            let maps = if op.arg(4) & 1 != 0 || !maps.is_empty() { Some(maps) } else { None };
            (Built::Rc(rimt::PcieRootComplex::new(op.arg(0) as u16, op.arg(1) as u16, op.arg(2) & 1 == 1, op.arg(3) & 1 == 1, maps)), 1)
        }
        K::RiPlatform => {
            let name = name_string(&op.b);
            // bit 32: embedded NUL; bit 33: non-ASCII — both outside "NUL-terminated ASCII string"
            aux = name.len() as u64 | if name.as_bytes().contains(&0) { 1 << 32 } else { 0 } | if name.is_ascii() { 0 } else { 1 << 33 };
            let maps = rimt_maps(&op.s, h, 12 + name.len() as u32 + 1, &mut refs).unwrap();
            subn = maps.len() as u32;
            let maps = if op.arg(1) & 1 != 0 || !maps.is_empty() { Some(maps) } else { None };
            (Built::Platform(rimt::Platform::new(op.arg(0) as u16, name, maps)), 2)
        }
        // ---------------- VIOT ----------------
        K::ViPciRange => {
            if h.trans.is_empty() {
                return None;
            }
            let (hd, t) = &h.trans[(op.arg(8) % h.trans.len() as u64) as usize];
            refs.push(RefF { off: 16, width: 2, target: *t, raw: hd.verif_raw() as u32, class: HC_TRANS });
            let first = viot::PciDevice::new(op.arg(0) as u16, op.arg(1) as u8, op.arg(2) as u8, op.arg(3) as u8);
            let last = viot::PciDevice::new(op.arg(4) as u16, op.arg(5) as u8, op.arg(6) as u8, op.arg(7) as u8);
            (Built::PciRange(viot::PciRange::new(first, last, hd)), 1)
        }
        K::ViMmioEp => {
            if h.trans.is_empty() {
                return None;
            }
            let (hd, t) = &h.trans[(op.arg(2) % h.trans.len() as u64) as usize];
            refs.push(RefF { off: 16, width: 2, target: *t, raw: hd.verif_raw() as u32, class: HC_TRANS });
            (Built::MmioEp(viot::MmioEndpoint::new(op.arg(0) as u32, op.arg(1), hd)), 2)
        }
        K::ViPciIommu => (
            Built::VPci(viot::VirtIoPciIommu::new(viot::PciDevice::new(op.arg(0) as u16, op.arg(1) as u8, op.arg(2) as u8, op.arg(3) as u8))),
            3,
        ),
        K::ViMmioIommu => (Built::VMmio(viot::VirtIoMmioIommu::new(op.arg(0))), 4),
        // ---------------- CEDT ----------------
        K::CeChbs => {
            let v = if op.arg(1) % 2 == 0 { cedt::CxlVersion::Cxl1_1 } else { cedt::CxlVersion::Cxl2 };
            (Built::Chbs(cedt::CxlHostBridge::new(op.arg(0) as u32, v, op.arg(2))), 0)
        }
        K::CeCfmws => {
            let arith = if op.arg(2) % 2 == 0 { cedt::InterleaveArithmetic::Modulo } else { cedt::InterleaveArithmetic::ModuloXor };
            let gran = cedt_gran(op.arg(3));
            let (ways, _n) = cedt_ways(op.arg(4));
            let mut f = cedt::CxlFixedMemory::new(op.arg(0), op.arg(1), arith, gran, ways, op.arg(5) as u16);
            for o in &op.s {
                match o.k {
                    K::WrType2 => f = f.cxl_type_2_memory(),
                    K::WrType3 => f = f.cxl_type_3_memory(),
                    K::WrVolatile => f = f.volatile(),
                    K::WrPersistent => f = f.persistent(),
                    K::WrFixed => f = f.fixed_configuration(),
                    K::CfTarget => {
                        f.add_target(o.arr::<4>(0));
                        subn += 1;
                    }
                    _ => {}
                }
            }
            (Built::Cfmws(f), 1)
        }
        K::CeCxims => {
            let mut x = cedt::XorInterleaveMath::new(cedt_gran(op.arg(0)));
            for o in op.s.iter().filter(|o| o.k == K::CxXormap) {
                x.add_xormap(o.arg(0));
                subn += 1;
            }
            (Built::Cxims(x), 2)
        }
        K::CeRdpas => {
            let p = if op.arg(4) % 2 == 0 { cedt::ProtocolType::CxlIo } else { cedt::ProtocolType::CxlMem };
            (Built::Rdpas(cedt::PortAssociation::new(op.arg(0) as u16, op.arg(1) as u8, op.arg(2) as u8, op.arg(3) as u8, p, op.arg(5))), 3)
        }
        // ---------------- HEST ----------------
        K::HeAerRoot | K::HeAerDev | K::HeAerBridge => {
            // a[0]: 0 = global, else per-device; a[1]=firmware first, a[2..5]=bus,dev,fn
            let ff = if op.arg(1) % 2 == 0 { hest::FirmwareFirst::Disabled } else { hest::FirmwareFirst::Enabled };
            let global = op.arg(0) % 2 == 0;
            let dev = || hest::PciDevice::new(op.arg(2) as u8, op.arg(3) as u8, op.arg(4) as u8);
            match op.k {
                K::HeAerRoot => {
                    let mut x = if global { hest::PcieAerRootPort::new_global() } else { hest::PcieAerRootPort::new_root_port(ff, dev()) };
                    for o in op.s.iter().filter(|o| o.k == K::HeSet) {
                        apply_set!(x, o, [0 => num_records: u32, 1 => max_sections: u32, 2 => device_control: u16,
                            3 => uncorrectable_error_mask: u32, 4 => uncorrectable_error_severity: u32,
                            5 => correctable_error_mask: u32, 6 => aer_cap_ctrl: u32, 7 => root_error_command: u32]);
                    }
                    (Built::AerRoot(x), 6)
                }
                K::HeAerDev => {
                    let mut x = if global { hest::PcieAerDevice::new_global() } else { hest::PcieAerDevice::new_root_port(ff, dev()) };
                    for o in op.s.iter().filter(|o| o.k == K::HeSet) {
                        apply_set!(x, o, [0 => num_records: u32, 1 => max_sections: u32, 2 => device_control: u16,
                            3 => uncorrectable_error_mask: u32, 4 => uncorrectable_error_severity: u32,
                            5 => correctable_error_mask: u32, 6 => aer_cap_ctrl: u32]);
                    }
                    (Built::AerDev(x), 7)
                }
                _ => {
                    let mut x = if global { hest::PcieAerBridge::new_global() } else { hest::PcieAerBridge::new_bridge(ff, dev()) };
                    for o in op.s.iter().filter(|o| o.k == K::HeSet) {
                        apply_set!(x, o, [0 => num_records: u32, 1 => max_sections: u32, 2 => device_control: u16,
                            3 => uncorrectable_error_mask: u32, 4 => uncorrectable_error_severity: u32,
                            5 => correctable_error_mask: u32, 6 => aer_cap_ctrl: u32,
                            7 => secondary_uncorrectable_error_mask: u32, 8 => secondary_uncorrectable_error_severity: u32,
                            9 => secondary_aer_cap_ctrl: u32]);
                    }
                    (Built::AerBridge(x), 8)
                }
            }
        }
        K::HeGhes | K::HeGhesV2 => {
            let en = if op.arg(1) % 2 == 0 { hest::EnabledStatus::Disabled } else { hest::EnabledStatus::Enabled };
            let notif = |o: &Op| {
                hest::NotificationStructure::new(notif_type(o.arg(1)))
                    .conf_write_en(o.arg(2) as u16)
                    .poll_interval_ms(o.arg(3) as u32)
                    .vector(o.arg(4) as u32)
                    .polling_threshold_value(o.arg(5) as u32)
                    .polling_threshold_window_ms(o.arg(6) as u32)
                    .error_threshold_value(o.arg(7) as u32)
                    .error_threshold_window_ms(o.arg(8) as u32)
            };
            if op.k == K::HeGhes {
                let mut x = hest::GenericHardwareSource::new(op.arg(0) as u16, en);
                for o in op.s.iter().filter(|o| o.k == K::HeSet) {
                    match o.arg(0) {
                        0 => x = x.num_records(o.arg(1) as u32),
                        1 => x = x.max_sections(o.arg(1) as u32),
                        2 => x = x.max_raw_length(o.arg(1) as u32),
                        3 => x = x.error_status_address(gas_at(o, 1)),
                        4 => x = x.notification(notif(o)),
                        5 => x = x.error_status_block_len(o.arg(1) as u32),
                        _ => {}
                    }
                }
                (Built::Ghes(x), 9)
            } else {
                let mut x = hest::GenericHardwareSourceV2::new(op.arg(0) as u16, en);
                for o in op.s.iter().filter(|o| o.k == K::HeSet) {
                    match o.arg(0) {
                        0 => x = x.num_records(o.arg(1) as u32),
                        1 => x = x.max_sections(o.arg(1) as u32),
                        2 => x = x.max_raw_length(o.arg(1) as u32),
                        3 => x = x.error_status_address(gas_at(o, 1)),
                        4 => x = x.notification(notif(o)),
                        5 => x = x.error_status_block_len(o.arg(1) as u32),
                        6 => x = x.read_ack_register(gas_at(o, 1)),
                        7 => x = x.read_ack_preserve(o.arg(1)),
                        8 => x = x.read_ack_write(o.arg(1)),
                        _ => {}
                    }
                }
                (Built::GhesV2(x), 10)
            }
        }
        // ---------------- RQSC ----------------
        K::RqController => {
            let ct = if op.arg(0) % 2 == 0 { rqsc::ControllerType::Capacity } else { rqsc::ControllerType::Bandwidth };
            let mut c = rqsc::QoSController::new(ct, gas_at(op, 1), op.arg(6) as u32, op.arg(7) as u32, op.arg(8) as u16);
            for o in op.s.iter().filter(|o| o.k == K::RqRes) {
                let rt = if o.arg(0) % 2 == 0 { rqsc::ResourceType::Cache } else { rqsc::ResourceType::Memory };
                let id = match o.arg(2) % 5 {
                    0 => rqsc::ResourceID::Cache(rqsc::CacheResource::new(o.arg(3) as u32)),
                    1 => rqsc::ResourceID::MemoryAffinityStructure(rqsc::MemoryAffinityStructureResource::new(o.arg(3) as u32, o.arg(4))),
                    2 => rqsc::ResourceID::ACPIDevice(rqsc::ACPIDeviceResource::new(o.arg(3), o.arg(4) as u32)),
                    3 => rqsc::ResourceID::PCIDevice(rqsc::PCIDeviceResource::new(o.arg(3) as u32)),
                    _ => rqsc::ResourceID::VendorSpecific(0x80 | (o.arg(3) as u8), o.b.clone()),
                };
                c.add_resource(rqsc::ResourceStructure::new(rt, o.arg(1) as u16, id));
                subn += 1;
            }
            (Built::Controller(c), (op.arg(0) % 2) as u32)
        }
        _ => return None,
    };
    Some(BuiltEntry { b, tcode, refs, subn, aux })
}

pub fn cedt_gran(v: u64) -> cedt::InterleaveGranularity {
    use cedt::InterleaveGranularity::*;
    match v % 7 {
        0 => Granularity256b,
        1 => Granularity512b,
        2 => Granularity1kb,
        3 => Granularity2kb,
        4 => Granularity4kb,
        5 => Granularity8kb,
        _ => Granularity16kb,
    }
}

/// (variant, number of interleave ways it stands for — CXL 3.0 table 9-22 ENIW encoding)
pub fn cedt_ways(v: u64) -> (cedt::InterleaveWays, usize) {
    use cedt::InterleaveWays::*;
    match v % 8 {
        0 => (Ways1, 1),
        1 => (Ways2, 2),
        2 => (Ways4, 4),
        3 => (Ways8, 8),
        4 => (Ways16, 16),
        5 => (Ways3, 3),
        6 => (Ways6, 6),
        _ => (Ways12, 12),
    }
}

/// Build a HMAT SystemLocality from its op: returns (object, initiators, targets).
/// Cell assignments with out-of-range indices are *not* applied here (see exec: they are faults).
pub fn build_sysloc(op: &Op) -> (hmat::SystemLocality, usize, usize) {
    let lt = match op.arg(0) % 4 {
        0 => hmat::LocalityType::Memory,
        1 => hmat::LocalityType::FirstLevelCache,
        2 => hmat::LocalityType::SecondLevelCache,
        _ => hmat::LocalityType::ThirdLevelCache,
    };
    use hmat::DataType::*;
    let dt = match op.arg(1) % 6 {
        0 => AccessLatency,
        1 => ReadLatency,
        2 => WriteLatency,
        3 => AccessBandwidth,
        4 => ReadBandwidth,
        _ => WriteBandwidth,
    };
    use hmat::MinTransferSize::*;
    let mts = match op.arg(2) % 12 {
        0 => SizeByteAligned,
        1 => Size64b,
        2 => Size128b,
        3 => Size256b,
        4 => Size512b,
        5 => Size1k,
        6 => Size2k,
        7 => Size4k,
        8 => Size8k,
        9 => Size16k,
        10 => Size32k,
        _ => Size64k,
    };
    let i = (op.arg(4) % 301) as usize;
    let t = (op.arg(5) % 301) as usize;
    let mut s = hmat::SystemLocality::new(lt, dt, mts, op.arg(3), i, t);
    for o in &op.s {
        match o.k {
            K::LocNonSeq => s.non_sequential_transfers(),
            K::LocMinTransfer => s.minimum_transfer_size_required(),
            // a[2] == 1: the index is taken as it is (possibly out of range: a refusal is then expected)
            K::LocSetInit if o.arg(2) == 1 => s.set_initiator_value(o.arg(0) as usize, o.arg(1) as u32),
            K::LocSetTarget if o.arg(2) == 1 => s.set_target_value(o.arg(0) as usize, o.arg(1) as u32),
            K::LocSetInit if i > 0 => s.set_initiator_value((o.arg(0) as usize) % i, o.arg(1) as u32),
            K::LocSetTarget if t > 0 => s.set_target_value((o.arg(0) as usize) % t, o.arg(1) as u32),
            K::LocSetEntry if i > 0 && t > 0 => {
                // in-range assignments only (property C12: every in-range pair is accepted)
                s.set_entry_value((o.arg(0) as usize) % i, (o.arg(1) as usize) % t, o.arg(2) as u16)
            }
            _ => {}
        }
    }
    (s, i, t)
}

/// SystemLocality from a root op that carries only constructor arguments and flag options
pub fn build_sysloc_flags_only(op: &Op) -> hmat::SystemLocality {
    build_sysloc(op).0
}
