//! Minimal JSON value, writer and parser (ordered objects, exact u64). Hand-written so the
//! harness has no foreign dependency and no hash-order nondeterminism.

#[derive(Clone, Debug, PartialEq)]
pub enum J {
    Null,
    Bool(bool),
    U(u64),
    I(i64),
    F(f64),
    S(String),
    A(Vec<J>),
    O(Vec<(String, J)>),
}

impl J {
    pub fn obj() -> J {
        J::O(Vec::new())
    }
    pub fn set(mut self, k: &str, v: J) -> J {
        if let J::O(ref mut kv) = self {
            if let Some(e) = kv.iter_mut().find(|(kk, _)| kk == k) {
                e.1 = v;
            } else {
                kv.push((k.to_string(), v));
            }
        }
        self
    }
    pub fn put(&mut self, k: &str, v: J) {
        if let J::O(ref mut kv) = self {
            if let Some(e) = kv.iter_mut().find(|(kk, _)| kk == k) {
                e.1 = v;
            } else {
                kv.push((k.to_string(), v));
            }
        }
    }
    pub fn get(&self, k: &str) -> Option<&J> {
        match self {
            J::O(kv) => kv.iter().find(|(kk, _)| kk == k).map(|(_, v)| v),
            _ => None,
        }
    }
    pub fn as_u64(&self) -> Option<u64> {
        match self {
            J::U(u) => Some(*u),
            J::I(i) if *i >= 0 => Some(*i as u64),
            _ => None,
        }
    }
    pub fn as_str(&self) -> Option<&str> {
        match self {
            J::S(s) => Some(s),
            _ => None,
        }
    }
    pub fn as_arr(&self) -> Option<&[J]> {
        match self {
            J::A(a) => Some(a),
            _ => None,
        }
    }
    pub fn s(x: &str) -> J {
        J::S(x.to_string())
    }

    pub fn write(&self, out: &mut String, indent: usize, pretty: bool) {
        match self {
            J::Null => out.push_str("null"),
            J::Bool(b) => out.push_str(if *b { "true" } else { "false" }),
            J::U(u) => out.push_str(&u.to_string()),
            J::I(i) => out.push_str(&i.to_string()),
            J::F(f) => {
                if f.is_finite() {
                    let s = format!("{:.3}", f);
                    out.push_str(&s);
                } else {
                    out.push_str("0")
                }
            }
            J::S(s) => write_str(out, s),
            J::A(a) => {
                let simple = a.iter().all(|x| !matches!(x, J::A(_) | J::O(_)));
                out.push('[');
                for (i, x) in a.iter().enumerate() {
                    if i > 0 {
                        out.push(',');
                    }
                    if pretty && !simple {
                        nl(out, indent + 1);
                    }
                    x.write(out, indent + 1, pretty);
                }
                if pretty && !simple && !a.is_empty() {
                    nl(out, indent);
                }
                out.push(']');
            }
            J::O(kv) => {
                out.push('{');
                for (i, (k, v)) in kv.iter().enumerate() {
                    if i > 0 {
                        out.push(',');
                    }
                    if pretty {
                        nl(out, indent + 1);
                    }
                    write_str(out, k);
                    out.push(':');
                    if pretty {
                        out.push(' ');
                    }
                    v.write(out, indent + 1, pretty);
                }
                if pretty && !kv.is_empty() {
                    nl(out, indent);
                }
                out.push('}');
            }
        }
    }

    pub fn to_string_pretty(&self) -> String {
        let mut s = String::new();
        self.write(&mut s, 0, true);
        s.push('\n');
        s
    }
    pub fn to_string_compact(&self) -> String {
        let mut s = String::new();
        self.write(&mut s, 0, false);
        s
    }
}

fn nl(out: &mut String, indent: usize) {
    out.push('\n');
    for _ in 0..indent {
        out.push(' ');
    }
}

fn write_str(out: &mut String, s: &str) {
    out.push('"');
    for c in s.chars() {
        match c {
            '"' => out.push_str("\\\""),
            '\\' => out.push_str("\\\\"),
            '\n' => out.push_str("\\n"),
            '\r' => out.push_str("\\r"),
            '\t' => out.push_str("\\t"),
            c if (c as u32) < 0x20 => out.push_str(&format!("\\u{:04x}", c as u32)),
            c => out.push(c),
        }
    }
    out.push('"');
}

pub fn parse(s: &str) -> Result<J, String> {
    let b = s.as_bytes();
    let mut p = 0usize;
    let v = pv(b, &mut p)?;
    ws(b, &mut p);
    if p != b.len() {
        return Err(format!("trailing data at {}", p));
    }
    Ok(v)
}

fn ws(b: &[u8], p: &mut usize) {
    while *p < b.len() && (b[*p] == b' ' || b[*p] == b'\n' || b[*p] == b'\r' || b[*p] == b'\t') {
        *p += 1;
    }
}

fn pv(b: &[u8], p: &mut usize) -> Result<J, String> {
    ws(b, p);
    if *p >= b.len() {
        return Err("eof".into());
    }
    match b[*p] {
        b'{' => {
            *p += 1;
            let mut kv = Vec::new();
            ws(b, p);
            if *p < b.len() && b[*p] == b'}' {
                *p += 1;
                return Ok(J::O(kv));
            }
            loop {
                ws(b, p);
                let k = match pv(b, p)? {
                    J::S(s) => s,
                    _ => return Err("key".into()),
                };
                ws(b, p);
                if *p >= b.len() || b[*p] != b':' {
                    return Err(format!("expected : at {}", p));
                }
                *p += 1;
                let v = pv(b, p)?;
                kv.push((k, v));
                ws(b, p);
                if *p < b.len() && b[*p] == b',' {
                    *p += 1;
                    continue;
                }
                if *p < b.len() && b[*p] == b'}' {
                    *p += 1;
                    return Ok(J::O(kv));
                }
                return Err(format!("expected , or }} at {}", p));
            }
        }
        b'[' => {
            *p += 1;
            let mut a = Vec::new();
            ws(b, p);
            if *p < b.len() && b[*p] == b']' {
                *p += 1;
                return Ok(J::A(a));
            }
            loop {
                a.push(pv(b, p)?);
                ws(b, p);
                if *p < b.len() && b[*p] == b',' {
                    *p += 1;
                    continue;
                }
                if *p < b.len() && b[*p] == b']' {
                    *p += 1;
                    return Ok(J::A(a));
                }
                return Err(format!("expected , or ] at {}", p));
            }
        }
        b'"' => {
            *p += 1;
            let mut s = String::new();
            while *p < b.len() {
                let c = b[*p];
                *p += 1;
                match c {
                    b'"' => return Ok(J::S(s)),
                    b'\\' => {
                        let e = b[*p];
                        *p += 1;
                        match e {
                            b'n' => s.push('\n'),
                            b'r' => s.push('\r'),
                            b't' => s.push('\t'),
                            b'u' => {
                                let h = std::str::from_utf8(&b[*p..*p + 4]).map_err(|e| e.to_string())?;
                                let cp = u32::from_str_radix(h, 16).map_err(|e| e.to_string())?;
                                *p += 4;
                                s.push(char::from_u32(cp).unwrap_or('?'));
                            }
                            other => s.push(other as char),
                        }
                    }
                    _ => {
                        // re-decode utf8 sequences
                        let start = *p - 1;
                        let mut end = *p;
                        while end < b.len() && (b[end] & 0xC0) == 0x80 {
                            end += 1;
                        }
                        s.push_str(std::str::from_utf8(&b[start..end]).map_err(|e| e.to_string())?);
                        *p = end;
                    }
                }
            }
            Err("unterminated string".into())
        }
        b't' if b[*p..].starts_with(b"true") => {
            *p += 4;
            Ok(J::Bool(true))
        }
        b'f' if b[*p..].starts_with(b"false") => {
            *p += 5;
            Ok(J::Bool(false))
        }
        b'n' if b[*p..].starts_with(b"null") => {
            *p += 4;
            Ok(J::Null)
        }
        _ => {
            let st = *p;
            while *p < b.len() && (b[*p] == b'-' || b[*p] == b'+' || b[*p] == b'.' || b[*p] == b'e' || b[*p] == b'E' || b[*p].is_ascii_digit()) {
                *p += 1;
            }
            let t = std::str::from_utf8(&b[st..*p]).map_err(|e| e.to_string())?;
            if t.is_empty() {
                return Err(format!("unexpected byte at {}", st));
            }
            if let Ok(u) = t.parse::<u64>() {
                Ok(J::U(u))
            } else if let Ok(i) = t.parse::<i64>() {
                Ok(J::I(i))
            } else {
                t.parse::<f64>().map(J::F).map_err(|e| e.to_string())
            }
        }
    }
}

pub fn hex(b: &[u8]) -> String {
    let mut s = String::with_capacity(b.len() * 2);
    for x in b {
        s.push_str(&format!("{:02x}", x));
    }
    s
}

pub fn unhex(s: &str) -> Result<Vec<u8>, String> {
    if s.len() % 2 != 0 {
        return Err("odd hex".into());
    }
    (0..s.len() / 2)
        .map(|i| u8::from_str_radix(&s[2 * i..2 * i + 2], 16).map_err(|e| e.to_string()))
        .collect()
}
