//! AML objects used purely as *byte producers* for the sink seam (C14). Every exported AML
//! constructor is instantiated as real crate code; children of composite objects are
//! caller-implemented producers (`Scripted`, pushing pre-serialised child bytes through a scripted
//! mix of sink entry points), which is exactly the `dyn Aml` seam the crate exposes.
//! No claim about the *meaning* of the emitted AML is made here (that is C06–C10, not claimed).

use crate::cx::*;
use crate::exec::{Applied, Subject};
use crate::op::{Op, K};
use crate::sinks::*;
use acpi_tables::aml::*;
use acpi_tables::{Aml, AmlSink};
use zerocopy::IntoBytes;

pub const N_SELECTORS: u64 = 58;

fn seg(b: &[u8], i: usize) -> String {
    // a legal 4-character name segment [A-Z_][A-Z0-9_]{3}
    let lead = b"ABCDEFGHIJKLMNOPQRSTUVWXYZ_";
    let rest = b"ABCDEFGHIJKLMNOPQRSTUVWXYZ_0123456789";
    let g = |k: usize| b.get(4 * i + k).copied().unwrap_or((i * 7 + k) as u8) as usize;
    let mut s = String::new();
    s.push(lead[g(0) % lead.len()] as char);
    for k in 1..4 {
        s.push(rest[g(k) % rest.len()] as char);
    }
    s
}

fn path(op: &Op) -> Path {
    // a[1]: bit0 rooted, bits 1.. number of segments (1..=5)
    let n = 1 + ((op.arg(1) >> 1) % 5) as usize;
    let mut s = String::new();
    if op.arg(1) & 1 == 1 {
        s.push('\\');
    }
    for i in 0..n {
        if i > 0 {
            s.push('.');
        }
        s.push_str(&seg(&op.b, i));
    }
    Path::new(&s)
}

const STRS: [&str; 4] = ["", "A", "PCI0.DEV0 string", "the quick brown fox jumps over the lazy dog 0123456789 the quick brown fox jumps over the lazy dog"];

/// Build the object described by `op` (children first), run the C14 oracles on it and return
/// its reference byte stream. Err = the crate refused the arguments.
pub fn produce(op: &Op, depth: usize, cx: &mut Cx) -> Result<Vec<u8>, Caught> {
    let mut kids: Vec<Vec<u8>> = Vec::new();
    if depth < 5 {
        for c in op.s.iter().filter(|c| c.k == K::AmObj).take(12) {
            if let Ok(b) = produce(c, depth + 1, cx) {
                kids.push(b);
            }
        }
    }
    let script = op.arg(2) ^ 0x5bd1_e995;
    let prods: Vec<Scripted> = kids.iter().enumerate().map(|(i, d)| Scripted { data: d, script: script.wrapping_add(i as u64), abort_after: None }).collect();
    let refs: Vec<&dyn Aml> = prods.iter().map(|p| p as &dyn Aml).collect();
    let zero = Scripted { data: &[0x00], script: 1, abort_after: None };
    let kid = |i: usize| -> &dyn Aml { refs.get(i).copied().unwrap_or(&zero) };
    let sel = op.arg(0) % N_SELECTORS;
    cx.cover("c14.aml_constructors", sel);
    let a3 = op.arg(3);
    let a4 = op.arg(4);
    let run_raw = |obj: &dyn Aml, raw: Option<&[u8]>, cx: &mut Cx| -> Result<Vec<u8>, Caught> {
        let reference = catch(|| to_vec(obj))?;
        crate::exec::c14_object(obj, raw, &reference, K::AmObj, cx);
        Ok(reference)
    };
    let run = |obj: &dyn Aml, cx: &mut Cx| -> Result<Vec<u8>, Caught> {
        let reference = catch(|| to_vec(obj))?;
        crate::exec::c14_object(obj, None, &reference, K::AmObj, cx);
        if op.arg(5) % 5 == 0 {
            crate::exec::c14_abort(obj, &reference, op.arg(6) as usize, K::AmObj, cx);
        }
        Ok(reference)
    };
    let mk = catch(|| -> Result<Vec<u8>, Caught> {
        match sel {
            0 => run(&ZERO, cx),
            1 => run(&ONE, cx),
            2 => run(&ONES, cx),
            3 => run(&(a3 as u8), cx),
            4 => run(&(a3 as u16), cx),
            5 => run(&(a3 as u32), cx),
            6 => run(&a3, cx),
            7 => run(&(a3 as usize), cx),
            8 => run(&STRS[(a3 % 4) as usize], cx),
            9 => run(&String::from_utf8_lossy(&op.b.iter().map(|x| 0x20 + x % 0x5f).collect::<Vec<u8>>()).to_string(), cx),
            10 => run(&path(op), cx),
            11 => run(&Name::new(path(op), kid(0)), cx),
            12 => run(&Package::new(refs.clone()), cx),
            13 => {
                let mut pb = PackageBuilder::new();
                for r in &refs {
                    pb.add_element(*r);
                }
                run(&pb, cx)
            }
            14 => run(&VarPackageTerm::new(kid(0)), cx),
            15 => {
                let l = b"ABCDEFGHIJKLMNOPQRSTUVWXYZ";
                let h = b"0123456789ABCDEF";
                let s: String = (0..7).map(|i| if i < 3 { l[((a3 >> (5 * i)) % 26) as usize] as char } else { h[((a4 >> (4 * i)) % 16) as usize] as char }).collect();
                run(&EISAName::new(&s), cx)
            }
            16 => run(&ResourceTemplate::new(refs.clone()), cx),
            17 => run(&Memory32Fixed::new(a3 & 1 == 1, a4 as u32, op.arg(7) as u32), cx),
            18 => {
                let (lo, hi) = ordered(a3 & 0xffff, a4 & 0xffff, 0xffff);
                if a3 & (1 << 20) != 0 {
                    run(&AddressSpace::new_bus_number(lo as u16, hi as u16), cx)
                } else {
                    run(&AddressSpace::new_io(lo as u16, hi as u16, if a3 & (1 << 21) != 0 { Some(op.arg(7) as u16) } else { None }), cx)
                }
            }
            19 => {
                let (lo, hi) = ordered(a3 & 0xffff_ffff, a4 & 0xffff_ffff, 0xffff_ffff);
                run(&AddressSpace::new_memory(cacheable(op.arg(7)), a3 >> 40 & 1 == 1, lo as u32, hi as u32, if a3 >> 41 & 1 == 1 { Some(op.arg(8) as u32) } else { None }), cx)
            }
            20 => {
                let (lo, hi) = ordered(a3, a4, u64::MAX);
                if op.arg(7) & 8 != 0 {
                    run(&AddressSpace::new_io(lo, hi, None), cx)
                } else {
                    run(&AddressSpace::new_memory(cacheable(op.arg(7)), op.arg(7) >> 4 & 1 == 1, lo, hi, if op.arg(7) >> 5 & 1 == 1 { Some(op.arg(8)) } else { None }), cx)
                }
            }
            21 => run(&IO::new(a3 as u16, a4 as u16, op.arg(7) as u8, op.arg(8) as u8), cx),
            22 => run(&Interrupt::new(a3 & 1 == 1, a3 & 2 == 2, a3 & 4 == 4, a3 & 8 == 8, a4 as u32), cx),
            23 => run(&Register::new(crate::build::gas_at(op, 3)), cx),
            24 => run(&Device::new(path(op), refs.clone()), cx),
            25 => run(&Scope::new(path(op), refs.clone()), cx),
            26 => run(&Method::new(path(op), (a3 % 8) as u8, a4 & 1 == 1, refs.clone()), cx),
            27 => {
                let acc = [FieldAccessType::Any, FieldAccessType::Byte, FieldAccessType::Word, FieldAccessType::DWord, FieldAccessType::QWord, FieldAccessType::Buffer][(a3 % 6) as usize];
                let lock = if a4 & 1 == 0 { FieldLockRule::NoLock } else { FieldLockRule::Lock };
                let upd = [FieldUpdateRule::Preserve, FieldUpdateRule::WriteAsOnes, FieldUpdateRule::WriteAsZeroes][(a4 >> 1 & 3) as usize % 3];
                let n = (op.arg(7) % 6) as usize;
                let entries: Vec<FieldEntry> = (0..n)
                    .map(|i| {
                        let w = ((op.arg(8) >> (8 * i)) & 0xff) as usize * if i % 2 == 0 { 1 } else { 37 };
                        if (op.arg(7) >> (8 + i)) & 1 == 0 {
                            let s = seg(&op.b, 5 + i);
                            let mut nm = [0u8; 4];
                            nm.copy_from_slice(s.as_bytes());
                            FieldEntry::Named(nm, w)
                        } else {
                            FieldEntry::Reserved(w)
                        }
                    })
                    .collect();
                run(&Field::new(path(op), acc, lock, upd, entries), cx)
            }
            28 => {
                use OpRegionSpace::*;
                let sp = [SystemMemory, SystemIO, PCIConfig, EmbeddedControl, SMBus, SystemCMOS, PciBarTarget, IPMI, GeneralPurposeIO, GenericSerialBus][(a3 % 10) as usize];
                run(&OpRegion::new(path(op), sp, kid(0), kid(1)), cx)
            }
            29 => run(&If::new(kid(0), refs.iter().skip(1).copied().collect()), cx),
            30 => run(&Else::new(refs.clone()), cx),
            31 => match a3 % 6 {
                0 => run(&Equal::new(kid(0), kid(1)), cx),
                1 => run(&LessThan::new(kid(0), kid(1)), cx),
                2 => run(&GreaterThan::new(kid(0), kid(1)), cx),
                3 => run(&NotEqual::new(kid(0), kid(1)), cx),
                4 => run(&GreaterEqual::new(kid(0), kid(1)), cx),
                _ => run(&LessEqual::new(kid(0), kid(1)), cx),
            },
            32 => run(&Arg((a3 % 7) as u8), cx),
            33 => run(&Local((a3 % 8) as u8), cx),
            34 => run(&Store::new(kid(0), kid(1)), cx),
            35 => run(&Mutex::new(path(op), a3 as u8), cx),
            36 => run(&Acquire::new(path(op), a3 as u16), cx),
            37 => run(&Release::new(path(op)), cx),
            38 => run(&Notify::new(kid(0), kid(1)), cx),
            39 => run(&While::new(kid(0), refs.iter().skip(1).copied().collect()), cx),
            40 => match a3 % 4 {
                0 => run(&ObjectType::new(kid(0)), cx),
                1 => run(&SizeOf::new(kid(0)), cx),
                2 => run(&Return::new(kid(0)), cx),
                _ => run(&DeRefOf::new(kid(0)), cx),
            },
            41 => {
                let (t, a, b) = (kid(0), kid(1), kid(2));
                match a3 % 17 {
                    0 => run(&Add::new(t, a, b), cx),
                    1 => run(&Concat::new(t, a, b), cx),
                    2 => run(&Subtract::new(t, a, b), cx),
                    3 => run(&Multiply::new(t, a, b), cx),
                    4 => run(&ShiftLeft::new(t, a, b), cx),
                    5 => run(&ShiftRight::new(t, a, b), cx),
                    6 => run(&And::new(t, a, b), cx),
                    7 => run(&Nand::new(t, a, b), cx),
                    8 => run(&Or::new(t, a, b), cx),
                    9 => run(&Nor::new(t, a, b), cx),
                    10 => run(&Xor::new(t, a, b), cx),
                    11 => run(&ConcatRes::new(t, a, b), cx),
                    12 => run(&Mod::new(t, a, b), cx),
                    13 => run(&Index::new(t, a, b), cx),
                    14 => run(&ToString::new(t, a, b), cx),
                    15 => run(&CreateDWordField::new(t, a, b), cx),
                    _ => run(&CreateQWordField::new(t, a, b), cx),
                }
            }
            42 => {
                if a3 & 1 == 0 {
                    run(&ToBuffer::new(kid(0), kid(1)), cx)
                } else {
                    run(&ToInteger::new(kid(0), kid(1)), cx)
                }
            }
            43 => run(&CreateField::new(kid(0), kid(1), kid(2), kid(3)), cx),
            44 => run(&Mid::new(kid(0), kid(1), kid(2), kid(3)), cx),
            45 => run(&MethodCall::new(path(op), refs.clone()), cx),
            46 => run(&BufferTerm::new(kid(0)), cx),
            47 => run(&BufferData::new(op.b.clone()), cx),
            48 => {
                let h = b"0123456789abcdefABCDEF";
                let s: String = (0..36).map(|i| if [8, 13, 18, 23].contains(&i) { '-' } else { h[(mix8(a3, a4, i) % h.len() as u64) as usize] as char }).collect();
                run(&Uuid::new(&s), cx)
            }
            49 => run(&PowerResource::new(path(op), a3 as u8, a4 as u16, refs.clone()), cx),
            // structures that have both a raw in-memory form and a serialiser
            50 => {
                let g = crate::build::gas_at(op, 3);
                run_raw(&g, Some(g.as_bytes()), cx)
            }
            51 => {
                use acpi_tables::hest::*;
                let n = NotificationStructure::new(notif(op.arg(3)))
                    .conf_write_en(op.arg(4) as u16)
                    .poll_interval_ms(op.arg(7) as u32)
                    .vector(op.arg(8) as u32)
                    .polling_threshold_value((op.arg(7) >> 32) as u32)
                    .polling_threshold_window_ms((op.arg(8) >> 32) as u32)
                    .error_threshold_value((op.arg(3) >> 32) as u32)
                    .error_threshold_window_ms((op.arg(4) >> 32) as u32);
                run_raw(&n, Some(n.as_bytes()), cx)
            }
            52 => {
                let r = acpi_tables::rqsc::CacheResource::new(a3 as u32);
                run_raw(&r, Some(r.as_bytes()), cx)
            }
            53 => {
                let r = acpi_tables::rqsc::MemoryAffinityStructureResource::new(a3 as u32, a4);
                run_raw(&r, Some(r.as_bytes()), cx)
            }
            54 => {
                let r = acpi_tables::rqsc::ACPIDeviceResource::new(a3, a4 as u32);
                run_raw(&r, Some(r.as_bytes()), cx)
            }
            55 => {
                let r = acpi_tables::rqsc::PCIDeviceResource::new(a3 as u32);
                run_raw(&r, Some(r.as_bytes()), cx)
            }
            57 => {
                use acpi_tables::hest::*;
                let sev = match a4 % 4 {
                    0 => ErrorSeverity::Recoverable,
                    1 => ErrorSeverity::Fatal,
                    2 => ErrorSeverity::Correctable,
                    _ => ErrorSeverity::None,
                };
                run(&GenericErrorStatus::new((a3 % 4) as u32, ((a3 >> 8) % 4) as u32, sev), cx)
            }
            _ => {
                // a generic-error status block with data entries (HEST error records)
                use acpi_tables::hest::*;
                let sev = |v: u64| match v % 4 {
                    0 => ErrorSeverity::Recoverable,
                    1 => ErrorSeverity::Fatal,
                    2 => ErrorSeverity::Correctable,
                    _ => ErrorSeverity::None,
                };
                let mut d = GenericErrorData::new(sev(a3));
                d.section_type = a4 as u16;
                d.revision = (a4 >> 16) as u16;
                d.validation = (a4 >> 32) as u8;
                d.flags = (a4 >> 40) as u8;
                d.error_data_length = op.arg(7) as u32;
                for k in &kids {
                    d.add_data(Box::new(OwnedBytes(k.clone())));
                }
                let _ = GenericErrorStatus::new(a3 as u32 % 3, (a3 >> 8) as u32 % 3, sev(a3 >> 16));
                run(&d, cx)
            }
        }
    });
    match mk {
        Ok(r) => r,
        Err(e) => Err(e),
    }
}

struct OwnedBytes(Vec<u8>);
impl Aml for OwnedBytes {
    fn to_aml_bytes(&self, sink: &mut dyn AmlSink) {
        for b in &self.0 {
            sink.byte(*b);
        }
    }
}

fn notif(v: u64) -> acpi_tables::hest::NotificationType {
    use acpi_tables::hest::NotificationType::*;
    match v % 16 {
        0 => Polled,
        1 => ExternalIrq,
        2 => LocalIrq,
        3 => Sci,
        4 => Nmi,
        5 => Cmci,
        6 => Mce,
        7 => GpioSignal,
        8 => Armv8Sea,
        9 => Armv8Sei,
        10 => ExternalGsiv,
        11 => SoftwareException,
        12 => RiscvSupervisorSoftwareEvent,
        13 => RiscvLowPriorityRasInterrupt,
        14 => RiscvHighPriorityRasInterrupt,
        _ => RiscvHardwareErrorException,
    }
}

fn mix8(a: u64, b: u64, i: usize) -> u64 {
    crate::rng::mix(a ^ (b << 1), i as u64)
}

fn ordered(a: u64, b: u64, max: u64) -> (u64, u64) {
    let (lo, hi) = if a <= b { (a, b) } else { (b, a) };
    if lo == 0 && hi == max {
        (1, hi) // the range size max - min + 1 must be representable (C18's matter otherwise)
    } else {
        (lo, hi)
    }
}

fn cacheable(v: u64) -> AddressSpaceCacheable {
    match v % 4 {
        0 => AddressSpaceCacheable::NotCacheable,
        1 => AddressSpaceCacheable::Cacheable,
        2 => AddressSpaceCacheable::WriteCombining,
        _ => AddressSpaceCacheable::PreFetchable,
    }
}

/// subject: a sequence of top-level AML objects; its "image" is the concatenation of their streams
pub struct AmlSubj {
    out: Vec<u8>,
}

impl AmlSubj {
    pub fn new(_root: &Op) -> AmlSubj {
        AmlSubj { out: Vec::new() }
    }
}

impl Subject for AmlSubj {
    fn serialize(&self, sink: &mut dyn AmlSink) {
        sink.vec(&self.out)
    }
    fn checksummed(&self) -> bool {
        false
    }
    fn length_field(&self) -> Option<usize> {
        None
    }
    fn apply(&mut self, op: &Op, cx: &mut Cx) -> Applied {
        if op.k != K::AmObj {
            return Applied { refused: false, refusal_expected: false };
        }
        match produce(op, 0, cx) {
            Ok(b) => {
                cx.probe("c14.aml_objects");
                self.out.extend_from_slice(&b);
            }
            Err(_) => cx.probe("fault.refusal.aml_constructor"),
        }
        Applied { refused: false, refusal_expected: false }
    }
    fn check(&self, _img: &[u8], _cx: &mut Cx) {}
}
