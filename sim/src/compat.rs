//! The one place where the harness depends on API that a `fix:` commit added to acpi_tables.

use acpi_tables::srat::RintcAffinity;

/// `RintcAffinity::proximity_domain` exists (added by the fix that gives the SRAT RINTC affinity
/// structure its specification-mandated Proximity Domain field).
pub const HAS_RINTC_AFF_PROX: bool = true;

pub fn rintc_aff_prox(r: RintcAffinity, pd: u32) -> RintcAffinity {
    r.proximity_domain(pd)
}
