//! Batches, seeded search, minimisation, known findings, replay files and evidence.

use crate::cx::*;
use crate::exec::{execute, execute_mode};
use crate::gen::{self, gen_trace, GenCfg};
use crate::json::{self, J};
use crate::op::{Op, K};
use crate::rng::{mix, run_seed, Rng};
use std::collections::{BTreeMap, BTreeSet};
use std::sync::atomic::{AtomicU64, Ordering};
use std::sync::Mutex;
use std::time::Instant;

pub const DEFAULT_SEED: u64 = 20261002;
const VERIF_DIR: &str = "/verif";

/// where replays are written; ACPISIM_OUT redirects them for scratch sweeps (mutation analysis) so
/// that a sweep never touches /verif. The registered checks never set it.
fn out_dir() -> String {
    std::env::var("ACPISIM_OUT").unwrap_or_else(|_| VERIF_DIR.to_string())
}

pub struct Batch {
    pub name: &'static str,
    pub cfg: GenCfg,
    pub runs: u64,
}

fn verif_seed() -> u64 {
    std::env::var("VERIF_SEED").ok().and_then(|s| s.trim().parse::<u64>().ok()).unwrap_or(DEFAULT_SEED)
}

fn workers() -> usize {
    std::env::var("VERIF_WORKERS").ok().and_then(|s| s.parse().ok()).unwrap_or_else(|| std::thread::available_parallelism().map(|n| n.get()).unwrap_or(4)).max(1)
}

fn tag_of(prop: &str, batch: &str) -> u64 {
    let mut h = 0xcbf2_9ce4_8422_2325u64;
    for b in prop.bytes().chain(b"/".iter().copied()).chain(batch.bytes()) {
        h = (h ^ b as u64).wrapping_mul(0x100_0000_01b3);
    }
    h
}

/// the batches of a property: (fault-free, fault-injecting, boundary-seeking ...)
pub fn batches(prop: &str, thorough: bool) -> Vec<Batch> {
    use K::*;
    // VERIF_SCALE is a development knob (fraction of the registered budget); evidence records it
    let scale: f64 = std::env::var("VERIF_SCALE").ok().and_then(|s| s.parse().ok()).unwrap_or(1.0);
    let q = |quick: u64, thorough_n: u64| {
        let n = if thorough { thorough_n } else { quick };
        if scale == 1.0 || n == 0 {
            n
        } else {
            ((n as f64 * scale) as u64).max(1)
        }
    };
    let short: [u64; 7] = [8, 62, 18, 10, 2, 0, 0];
    let shortf: [u64; 7] = [6, 70, 20, 4, 0, 0, 0];
    let b64k: [u64; 7] = [0, 0, 0, 0, 0, 1, 0];
    let b16m: [u64; 7] = [0, 0, 0, 0, 0, 0, 1];
    let long: [u64; 7] = [0, 0, 10, 40, 50, 0, 0];
    let oversize = matches!(prop, "C01" | "C02" | "C05");
    let mk = |name, subjects: &[K], faults, classes: [u64; 7], runs| Batch { name, cfg: GenCfg { subjects: subjects.to_vec(), faults, classes, oversize, deep: false, pokes: prop == "C14" }, runs };
    // thorough tier only: a batch with much larger bounds
    let deep = |name, subjects: &[K], classes: [u64; 7], runs| Batch { name, cfg: GenCfg { subjects: subjects.to_vec(), faults: false, classes, oversize, deep: true, pokes: prop == "C14" }, runs };
    let deepc: [u64; 7] = [0, 0, 10, 10, 80, 0, 0];
    let count_tables = [Xsdt, Mcfg, Madt, Rhct, Hest, Rimt];
    match prop {
        "C01" => vec![
            mk("fault-free", &gen::CHECKSUMMED, false, short, q(150_000, 6_000_000)),
            mk("faults", &gen::CHECKSUMMED, true, shortf, q(60_000, 3_000_000)),
            mk("long-and-256-boundaries", &gen::TABLES, false, long, q(1_500, 60_000)),
            mk("64k-boundaries", &count_tables, false, b64k, q(12, 160)),
            mk("16M-byte-boundary", &[Xsdt, Mcfg], false, b16m, q(0, 4)),
            deep("deep-bounds", &gen::CHECKSUMMED, deepc, q(0, 1_500)),
        ],
        "C02" => {
            let mut all = gen::CHECKSUMMED.to_vec();
            all.push(Facs);
            vec![
                mk("fault-free", &all, false, short, q(150_000, 6_000_000)),
                mk("faults", &all, true, shortf, q(60_000, 3_000_000)),
                mk("long-and-256-boundaries", &gen::TABLES, false, long, q(1_500, 60_000)),
                mk("64k-boundaries", &count_tables, false, b64k, q(12, 160)),
                mk("16M-byte-boundary", &[Xsdt, Mcfg], false, b16m, q(0, 4)),
                deep("deep-bounds", &all, deepc, q(0, 1_500)),
            ]
        }
        "C03" => vec![
            mk("fault-free", &gen::TABLES, false, short, q(150_000, 6_000_000)),
            mk("faults", &gen::TABLES, true, shortf, q(50_000, 2_000_000)),
            mk("long-and-256-boundaries", &gen::TABLES, false, long, q(1_500, 60_000)),
            mk("64k-boundaries", &count_tables, false, b64k, q(10, 120)),
            deep("deep-bounds", &gen::TABLES, deepc, q(0, 1_200)),
        ],
        "C05" => vec![
            mk("fault-free", &[Pptt, Rhct, Rimt, Viot], false, short, q(110_000, 5_000_000)),
            mk("faults", &[Pptt, Rhct, Rimt, Viot], true, shortf, q(40_000, 2_000_000)),
            mk("long-and-256-boundaries", &[Pptt, Rhct, Rimt, Viot], false, long, q(1_500, 60_000)),
            mk("64k-boundaries", &[Rhct, Rimt], false, b64k, q(4, 40)),
            deep("deep-bounds", &[Pptt, Rhct, Rimt], deepc, q(0, 600)),
        ],
        "C11" => vec![
            mk("fault-free", &[Madt, Srat, Pptt, Cedt, Hmat, SysLocSubj, TcpaServer, Fadt, Rimt, Hest], false, short, q(200_000, 8_000_000)),
            mk("faults", &[Madt, Srat, Pptt, Cedt, Hmat, SysLocSubj, TcpaServer, Fadt, Rimt, Hest], true, shortf, q(60_000, 2_000_000)),
        ],
        "C12" => vec![
            mk("fault-free", &[Slit, SysLocSubj, Hmat], false, [6, 50, 30, 10, 4, 0, 0], q(120_000, 5_000_000)),
            mk("faults", &[Slit, SysLocSubj, Hmat], true, [4, 50, 36, 10, 0, 0, 0], q(60_000, 2_000_000)),
            deep("deep-bounds", &[Slit, Hmat], [0, 30, 40, 20, 10, 0, 0], q(0, 2_000)),
        ],
        "C13" => vec![
            mk("fault-free", &[SdtSubj], false, [4, 56, 30, 6, 4, 0, 0], q(150_000, 6_000_000)),
            mk("faults", &[SdtSubj], true, [4, 56, 30, 6, 4, 0, 0], q(150_000, 6_000_000)),
            deep("deep-bounds", &[SdtSubj], [0, 30, 40, 20, 10, 0, 0], q(0, 4_000)),
        ],
        "C14" => {
            let mut all = gen::CHECKSUMMED.to_vec();
            all.extend_from_slice(&[Facs, SysLocSubj, CksumSubj, AmlSubj, AmlSubj, AmlSubj, AmlSubj]);
            vec![
                mk("fault-free", &all, false, short, q(50_000, 2_500_000)),
                mk("faults", &all, true, shortf, q(30_000, 1_500_000)),
                mk("long", &gen::TABLES, false, long, q(300, 12_000)),
            ]
        }
        "C17" => vec![
            mk("fault-free", &[CksumSubj], false, [2, 38, 40, 10, 10, 0, 0], q(60_000, 3_000_000)),
            mk("faults", &[CksumSubj], true, [2, 38, 40, 10, 10, 0, 0], q(30_000, 1_500_000)),
            deep("deep-bounds", &[CksumSubj], [0, 40, 40, 10, 10, 0, 0], q(0, 20_000)),
        ],
        _ => Vec::new(),
    }
}

#[derive(Clone)]
pub struct Found {
    pub batch: &'static str,
    pub run: u64,
    pub trace: Op,
    pub v: Violation,
}

pub struct BatchResult {
    pub st: Stats,
    pub found: Vec<Found>,
    pub distinct: BTreeSet<u64>,
    pub distinct_nontrivial: BTreeSet<u64>,
    pub digest: u64,
    pub samples: Vec<String>,
    pub violating_runs: u64,
    /// violating runs fully attributed to a listed known finding (key -> runs)
    pub known_hits: BTreeMap<String, u64>,
}

fn history_hash(t: &Op) -> u64 {
    // op-kind sequence with sub-element counts and fault positions
    let mut h = mix(t.k as u64, t.s.len() as u64);
    for o in &t.s {
        h = mix(h, (o.k as u64) << 32 | o.s.len() as u64);
        for c in &o.s {
            h = mix(h, c.k as u64);
        }
    }
    h
}

fn known_key(k: &Known) -> String {
    format!("property={} subject={} invariant={} trigger={} :: {}", k.property, k.subject, k.invariant, k.trigger.join("+"), k.what)
}

/// Is violation `v` of `trace` attributable to listed known findings? It is iff it disappears once
/// every operation of the known trigger kinds (same property, subject, invariant) is removed.
/// Returns Ok(keys of the findings involved) or Err(trace to report: the history without the known
/// triggers if it still fails, else the original).
fn attribute(prop: &str, props: u32, trace: &Op, v: &Violation, known: &[Known]) -> Result<Vec<String>, Op> {
    let kn: Vec<&Known> = known.iter().filter(|k| k.property == prop && k.subject == trace.k.name() && (k.invariant == v.inv || k.invariant == "*")).collect();
    if kn.is_empty() {
        return Err(trace.clone());
    }
    let mut kinds: Vec<String> = Vec::new();
    for k in &kn {
        kinds.extend(k.trigger.iter().cloned());
    }
    if !trace.s.iter().any(|o| kinds.iter().any(|t| t == o.k.name())) {
        return Err(trace.clone());
    }
    let stripped = strip_kinds(trace, &kinds);
    let still = execute(&stripped, props, false).viol.iter().any(|x| x.prop == v.prop && x.inv == v.inv);
    if still {
        Err(stripped)
    } else {
        Ok(kn.iter().filter(|k| trace.s.iter().any(|o| k.trigger.iter().any(|t| t == o.k.name()))).map(|k| known_key(k)).collect())
    }
}

pub fn run_batch(prop: &str, props: u32, b: &Batch, seed: u64, nworkers: usize, known: &[Known]) -> BatchResult {
    let tag = tag_of(prop, b.name);
    let next = AtomicU64::new(0);
    let out = Mutex::new(BatchResult { st: Stats::default(), found: Vec::new(), distinct: BTreeSet::new(), distinct_nontrivial: BTreeSet::new(), digest: 0, samples: Vec::new(), violating_runs: 0, known_hits: BTreeMap::new() });
    let panicked: Mutex<Option<String>> = Mutex::new(None);
    std::thread::scope(|sc| {
        for _ in 0..nworkers.min(b.runs.max(1) as usize) {
            sc.spawn(|| {
                let r = std::panic::catch_unwind(std::panic::AssertUnwindSafe(|| {
                    let mut st = Stats::default();
                    let mut found = Vec::new();
                    let mut distinct = BTreeSet::new();
                    let mut nontriv = BTreeSet::new();
                    let mut digest = 0u64;
                    let mut samples = Vec::new();
                    let mut violating = 0u64;
                    let mut khits: BTreeMap<String, u64> = BTreeMap::new();
                    loop {
                        let r = next.fetch_add(1, Ordering::Relaxed);
                        if r >= b.runs {
                            break;
                        }
                        let mut rng = Rng::new(run_seed(seed, tag, r));
                        let trace = gen_trace(&mut rng, &b.cfg, r);
                        let res = execute(&trace, props, true);
                        st.merge(&res.st);
                        st.add("runs", 1);
                        let hh = history_hash(&trace);
                        distinct.insert(hh);
                        if !trace.s.is_empty() {
                            nontriv.insert(hh);
                        }
                        // order-independent combination of per-run digests
                        digest = digest.wrapping_add(mix(res.digest, r));
                        if r < 3 || (r % (b.runs / 3).max(1) == 1 && samples.len() < 6) {
                            let mut b = trace.brief();
                            if b.len() > 420 {
                                let mut cut = 420;
                                while !b.is_char_boundary(cut) {
                                    cut -= 1;
                                }
                                b.truncate(cut);
                                b.push_str(" ...");
                            }
                            samples.push(format!("run {} ({} ops): {}", r, trace.s.len(), b));
                        }
                        if !res.viol.is_empty() {
                            violating += 1;
                            for v in res.viol {
                                match attribute(prop, props, &trace, &v, known) {
                                    Ok(keys) => {
                                        for k in keys {
                                            *khits.entry(k).or_insert(0) += 1;
                                        }
                                    }
                                    Err(t) => {
                                        if found.len() < 48 {
                                            found.push(Found { batch: b.name, run: r, trace: t, v });
                                        }
                                    }
                                }
                            }
                        }
                    }
                    let mut o = out.lock().unwrap();
                    o.st.merge(&st);
                    o.found.extend(found);
                    o.distinct.extend(distinct);
                    o.distinct_nontrivial.extend(nontriv);
                    o.digest = o.digest.wrapping_add(digest);
                    o.samples.extend(samples);
                    o.violating_runs += violating;
                    for (k, v) in khits {
                        *o.known_hits.entry(k).or_insert(0) += v;
                    }
                }));
                if let Err(p) = r {
                    let msg = p.downcast_ref::<String>().cloned().or_else(|| p.downcast_ref::<&str>().map(|s| s.to_string())).unwrap_or_else(|| "<panic>".into());
                    *panicked.lock().unwrap() = Some(msg);
                }
            });
        }
    });
    if let Some(m) = panicked.into_inner().unwrap() {
        panic!("worker panicked outside a fault window: {}", m);
    }
    let mut o = out.into_inner().unwrap();
    o.found.sort_by(|a, b| (a.run, a.v.prop, a.v.inv).cmp(&(b.run, b.v.prop, b.v.inv)));
    o.samples.sort();
    o
}

// ---------------------------------------------------------------------------------------------
// minimisation
// ---------------------------------------------------------------------------------------------

pub struct Minimiser {
    pub props: u32,
    pub prop: u32,
    pub inv: &'static str,
    /// remaining budget, in simulated operations (not executions: long histories are dear)
    pub budget: u64,
    /// observe only the final state of long candidates (sound: see exec::execute_mode)
    pub final_only: bool,
    /// wall-clock safety stop for shrinking one violation; it bounds how small the replay gets,
    /// never the verdict (the unminimised history is already a reproducing replay)
    pub deadline: Instant,
}

impl Minimiser {
    fn fails(&mut self, t: &Op) -> bool {
        // cost of a candidate: every node of the tree (an entry with 40 000 sub-elements is dear)
        let cost = 50 + t.size() as u64;
        if self.budget < cost || Instant::now() > self.deadline {
            self.budget = 0;
            return false;
        }
        self.budget -= cost;
        execute_mode(t, self.props, false, self.final_only).viol.iter().any(|v| v.prop == self.prop && v.inv == self.inv)
    }

    /// Start from the prefix that ends at the violating step; if that prefix fails with only its
    /// final state observed, long candidates are evaluated that way from then on.
    pub fn minimise_found(&mut self, t: &Op, step: usize) -> Op {
        let mut start = t.clone();
        if step > 0 && step < start.s.len() {
            let mut pre = t.clone();
            pre.s.truncate(step);
            self.final_only = true;
            if self.fails(&pre) {
                start = pre;
            } else {
                self.final_only = false;
            }
        } else {
            self.final_only = true;
            if !self.fails(&start) {
                self.final_only = false;
            }
        }
        self.minimise(start)
    }

    /// delta-debug the child list of the node reached by `path` from the root
    fn dd_children(&mut self, t: &mut Op, path: &[usize]) {
        let n0 = node(t, path).s.len();
        if n0 == 0 {
            return;
        }
        let mut chunk = n0.div_ceil(2);
        loop {
            let mut i = 0;
            let mut any = false;
            while i < node(t, path).s.len() {
                let len = node(t, path).s.len();
                let end = (i + chunk).min(len);
                let mut cand = t.clone();
                node_mut(&mut cand, path).s.drain(i..end);
                if self.fails(&cand) {
                    *t = cand;
                    any = true;
                } else {
                    i = end;
                }
                if self.budget == 0 {
                    return;
                }
            }
            if chunk == 1 && !any {
                break;
            }
            if chunk > 1 {
                chunk = chunk.div_ceil(2);
            } else if !any {
                break;
            }
        }
    }

    fn shrink_scalars(&mut self, t: &mut Op, path: &[usize]) {
        let is_root = path.is_empty();
        let na = node(t, path).a.len();
        for i in 0..na {
            if is_root && i == 1 {
                continue; // observation-sink seed: not part of the workload
            }
            let cur = node(t, path).a[i];
            if cur == 0 {
                continue;
            }
            for cand_v in [0u64, 1, cur >> 32, cur >> 8, cur / 2, cur - 1] {
                if cand_v >= cur {
                    continue;
                }
                let mut cand = t.clone();
                node_mut(&mut cand, path).a[i] = cand_v;
                if self.fails(&cand) {
                    *t = cand;
                    break;
                }
            }
        }
        // byte strings: shorter, then zeroed
        let nb = node(t, path).b.len();
        if nb > 0 && !is_root {
            for keep in [0usize, 1, nb / 2] {
                if keep >= node(t, path).b.len() {
                    continue;
                }
                let mut cand = t.clone();
                node_mut(&mut cand, path).b.truncate(keep);
                if self.fails(&cand) {
                    *t = cand;
                    break;
                }
            }
        }
        if node(t, path).b.iter().any(|x| *x != 0) {
            let mut cand = t.clone();
            for x in node_mut(&mut cand, path).b.iter_mut() {
                *x = 0;
            }
            if self.fails(&cand) {
                *t = cand;
            }
        }
    }

    pub fn minimise(&mut self, mut t: Op) -> Op {
        for _round in 0..4 {
            let before = (t.size(), arg_weight(&t));
            self.dd_children(&mut t, &[]);
            let mut i = 0;
            while i < t.s.len() && self.budget > 0 {
                self.dd_children(&mut t, &[i]);
                let mut j = 0;
                while j < t.s[i].s.len() && self.budget > 0 {
                    self.dd_children(&mut t, &[i, j]);
                    j += 1;
                }
                i += 1;
            }
            // scalar shrinking only once the tree is small
            if t.size() <= 64 {
                self.shrink_scalars(&mut t, &[]);
                for i in 0..t.s.len() {
                    self.shrink_scalars(&mut t, &[i]);
                    for j in 0..t.s[i].s.len() {
                        self.shrink_scalars(&mut t, &[i, j]);
                    }
                }
            }
            if (t.size(), arg_weight(&t)) == before || self.budget == 0 {
                break;
            }
        }
        t
    }
}

fn arg_weight(t: &Op) -> u64 {
    let mut w: u64 = t.a.iter().enumerate().filter(|(i, _)| *i != 1).map(|(_, x)| 64 - x.leading_zeros() as u64).sum::<u64>() + t.b.len() as u64;
    for c in &t.s {
        w += arg_weight_inner(c);
    }
    w
}
fn arg_weight_inner(t: &Op) -> u64 {
    t.a.iter().map(|x| 64 - x.leading_zeros() as u64).sum::<u64>() + t.b.iter().filter(|x| **x != 0).count() as u64 + t.b.len() as u64 + t.s.iter().map(arg_weight_inner).sum::<u64>()
}

fn node<'a>(t: &'a Op, path: &[usize]) -> &'a Op {
    let mut n = t;
    for i in path {
        n = &n.s[*i];
    }
    n
}
fn node_mut<'a>(t: &'a mut Op, path: &[usize]) -> &'a mut Op {
    let mut n = t;
    for i in path {
        n = &mut n.s[*i];
    }
    n
}

// ---------------------------------------------------------------------------------------------
// known findings
// ---------------------------------------------------------------------------------------------

#[derive(Clone, Debug)]
pub struct Known {
    pub property: String,
    pub subject: String,
    pub invariant: String,
    pub trigger: Vec<String>,
    pub what: String,
}

pub fn load_known() -> Vec<Known> {
    let p = format!("{}/known_findings.json", VERIF_DIR);
    let s = match std::fs::read_to_string(&p) {
        Ok(s) => s,
        Err(_) => return Vec::new(),
    };
    let j = json::parse(&s).unwrap_or_else(|e| panic!("known_findings.json does not parse: {}", e));
    let mut v = Vec::new();
    if let Some(a) = j.get("findings").and_then(|x| x.as_arr()) {
        for f in a {
            let g = |k: &str| f.get(k).and_then(|x| x.as_str()).unwrap_or("").to_string();
            v.push(Known {
                property: g("property"),
                subject: g("subject"),
                invariant: g("invariant"),
                trigger: f.get("trigger").and_then(|x| x.as_arr()).map(|a| a.iter().filter_map(|x| x.as_str().map(|s| s.to_string())).collect()).unwrap_or_default(),
                what: g("what"),
            });
        }
    }
    v
}

fn trigger_sig(t: &Op) -> Vec<String> {
    let mut s: Vec<String> = t.s.iter().map(|o| o.k.name().to_string()).collect();
    s.sort();
    s.dedup();
    s
}

fn strip_kinds(t: &Op, kinds: &[String]) -> Op {
    let mut c = t.clone();
    c.s.retain(|o| !kinds.iter().any(|k| k == o.k.name()));
    c
}

// ---------------------------------------------------------------------------------------------
// check
// ---------------------------------------------------------------------------------------------

fn trace_file(prop: &str, inv: &str, batch: &str, seed: u64, run: u64, subject: K, detail: &str, t: &Op, profile: &str) -> J {
    J::obj()
        .set("format", J::s("acpisim-replay-1"))
        .set("property", J::s(prop))
        .set("invariant", J::s(inv))
        .set("subject", J::s(subject.name()))
        .set("batch", J::s(batch))
        .set("verif_seed", J::U(seed))
        .set("run", J::U(run))
        .set("build_profile", J::s(profile))
        .set("budget_scale", J::F(std::env::var("VERIF_SCALE").ok().and_then(|s| s.parse().ok()).unwrap_or(1.0)))
        .set("detail", J::s(detail))
        .set("trace", t.to_json())
}

pub fn check(prop: &str, tier: &str, profile: &str, evidence_path: Option<String>) -> i32 {
    let props = match prop_mask(prop) {
        Some(p) => p,
        None => {
            eprintln!("unknown or unclaimed property {}", prop);
            return 2;
        }
    };
    let thorough = match tier {
        "quick" => false,
        "thorough" => true,
        _ => {
            eprintln!("tier must be quick or thorough");
            return 2;
        }
    };
    let seed = verif_seed();
    let nworkers = workers();
    println!("acpisim check property={} tier={} VERIF_SEED={} workers={} build_profile={}", prop, tier, seed, nworkers, profile);
    let t0 = Instant::now();
    let known = load_known();
    let bs = batches(prop, thorough);
    let mut total = Stats::default();
    let mut distinct = BTreeSet::new();
    let mut nontriv = BTreeSet::new();
    let mut samples: Vec<J> = Vec::new();
    let mut batch_info: Vec<J> = Vec::new();
    let mut new_violations: Vec<(String, String)> = Vec::new(); // (replay path, detail)
    let mut known_hits: BTreeMap<String, u64> = BTreeMap::new();
    let mut violating_runs = 0u64;
    for b in &bs {
        if b.runs == 0 {
            continue;
        }
        let bt = Instant::now();
        let r = run_batch(prop, props, b, seed, nworkers, &known);
        total.merge(&r.st);
        distinct.extend(r.distinct.iter().map(|x| mix(*x, tag_of("", b.name))));
        nontriv.extend(r.distinct_nontrivial.iter().map(|x| mix(*x, tag_of("", b.name))));
        for s in r.samples.iter().take(4) {
            samples.push(J::s(&format!("[{}] {}", b.name, s)));
        }
        violating_runs += r.violating_runs;
        batch_info.push(
            J::obj()
                .set("name", J::s(b.name))
                .set("runs", J::U(b.runs))
                .set("faults_enabled", J::Bool(b.cfg.faults))
                .set("oversized_sub_element_counts", J::Bool(b.cfg.oversize))
                .set("deep_bounds", J::Bool(b.cfg.deep))
                .set("subjects", J::A(b.cfg.subjects.iter().collect::<BTreeSet<_>>().into_iter().map(|k| J::s(k.name())).collect()))
                .set("length_class_weights_empty_short_medium_b256_long_b64k_b16M", J::A(b.cfg.classes.iter().map(|x| J::U(*x)).collect()))
                .set("event_log_digest", J::s(&format!("{:016x}", r.digest)))
                .set("violating_runs", J::U(r.violating_runs))
                .set("wall_s", J::F(bt.elapsed().as_secs_f64())),
        );
        // ---- triage: attribution to known findings already happened per run; what is left is new ----
        for (k, v) in &r.known_hits {
            *known_hits.entry(k.clone()).or_insert(0) += *v;
        }
        let mut reported: BTreeSet<(String, Vec<String>)> = BTreeSet::new();
        let mut minimised = 0;
        for f in &r.found {
            if f.v.prop != props || minimised >= 8 {
                continue;
            }
            let mut m = Minimiser { props, prop: f.v.prop, inv: f.v.inv, budget: 6_000_000, final_only: false, deadline: Instant::now() + std::time::Duration::from_secs(20) };
            let small = m.minimise_found(&f.trace, f.v.step);
            minimised += 1;
            let sig = (f.v.inv.to_string(), trigger_sig(&small));
            if !reported.insert((format!("{}/{}", small.k.name(), sig.0), sig.1.clone())) {
                continue;
            }
            let res = execute(&small, props, false);
            let detail = res.viol.iter().find(|v| v.prop == f.v.prop && v.inv == f.v.inv).map(|v| v.detail.clone()).unwrap_or_else(|| f.v.detail.clone());
            let path = format!("{}/replays/{}-{}-{}-{}.json", out_dir(), prop, seed, b.name, f.run);
            let _ = std::fs::create_dir_all(format!("{}/replays", out_dir()));
            let tf = trace_file(prop, f.v.inv, b.name, seed, f.run, small.k, &detail, &small, profile);
            std::fs::write(&path, tf.to_string_pretty()).unwrap_or_else(|e| panic!("cannot write replay {}: {}", path, e));
            // the minimised file must reproduce in a fresh process before it is reported
            let ok = std::process::Command::new(std::env::current_exe().unwrap()).arg("replay").arg(&path).output().map(|o| o.status.code() == Some(1)).unwrap_or(false);
            if !ok {
                panic!("minimised replay {} does not reproduce in a fresh process", path);
            }
            println!("violation: property={} invariant={} subject={} batch={} run={} ops={} :: {}", prop, f.v.inv, small.k.name(), b.name, f.run, small.s.len(), detail);
            new_violations.push((path, format!("{}: {}", f.v.inv, detail)));
        }
        println!("batch {:<28} runs={:<9} violating_runs={:<7} wall={:.1}s", b.name, b.runs, r.violating_runs, bt.elapsed().as_secs_f64());
    }
    let wall = t0.elapsed().as_secs_f64();
    // ---- evidence ----
    let runs = total.get("runs");
    let mut faults = J::obj();
    let mut probes = J::obj();
    for (k, v) in &total.n {
        if k.starts_with("fault.") {
            faults.put(k, J::U(*v));
        } else {
            probes.put(k, J::U(*v));
        }
    }
    let mut sets = J::obj();
    for (k, s) in &total.sets {
        sets.put(k, J::U(s.len() as u64));
    }
    let mut zero: Vec<J> = Vec::new();
    for p in expected_probes(prop) {
        let hit = total.get(p) > 0 || total.set_len(p) > 0;
        if !hit {
            eprintln!("WARNING: probe {} was never hit by this run", p);
            zero.push(J::s(p));
        }
    }
    // which subjects had a count/length carry observed (names, not just a count)
    let mut carries = J::obj();
    for key in ["carry.subjects_length_crossing_256", "carry.subjects_count_255_to_256", "carry.subjects_length_crossing_65536", "carry.subjects_count_65535_to_65536"] {
        if let Some(set) = total.sets.get(key) {
            let names: Vec<J> = set.iter().filter_map(|v| K::ALL.get(*v as usize)).map(|k| J::s(k.name())).collect();
            carries.put(key, J::A(names));
        }
    }
    let mut cov = J::obj()
        .set("evaluations", J::U(runs))
        .set("distinct_nontrivial", J::U(nontriv.len() as u64))
        .set("rule", J::s("one evaluation = one simulated run: a seeded history (constructor arguments + operation/fault sequence) executed against the real crate with every prefix observed per DESIGN 3.3; distinct = distinct (subject, op-kind sequence with sub-element kinds and fault positions) per batch; non-trivial = at least one mutating operation or fault (empty histories are mandatory for C01/C02 and counted separately as probe history.empty)"))
        .set("samples", J::A(samples))
        .set("distinct_histories_including_empty", J::U(distinct.len() as u64))
        .set("empty_histories", J::U(total.get("history.empty")))
        .set("states", J::U(total.set_len("abstract_states")))
        .set("states_measure", J::s("distinct (subject, entry-count bucket, byte-length bucket, last operation kind, refused or not) reached after a step; buckets are logarithmic with 255/256 and 65535/65536 kept apart"))
        .set("simulated_steps", J::U(total.get("steps")))
        .set("prefixes_observed", J::U(total.get("prefixes.observed")))
        .set("prefixes_skipped", J::U(total.get("prefixes.skipped")))
        .set("bytes_observed", J::U(total.get("bytes.observed")))
        .set("simulated_time", J::s("not applicable: the crate reads no clock; progress is measured in steps"))
        .set("runs_per_hour", J::F(if wall > 0.0 { runs as f64 / wall * 3600.0 } else { 0.0 }))
        .set("seeds_per_hour", J::F(if wall > 0.0 { runs as f64 / wall * 3600.0 } else { 0.0 }))
        .set("fault_kinds_fired", faults)
        .set("probes", probes)
        .set("coverage_sets_sizes", sets)
        .set("probes_at_zero", J::A(zero))
        .set("carries_observed_per_subject", carries)
        .set("batches", J::A(batch_info))
        .set("violating_runs_total", J::U(violating_runs))
        .set("known_findings_matched", J::A(known_hits.iter().map(|(k, v)| J::obj().set("finding", J::s(k)).set("runs", J::U(*v))).collect()))
        .set("build_profile", J::s(profile))
        .set("budget_scale", J::F(std::env::var("VERIF_SCALE").ok().and_then(|s| s.parse().ok()).unwrap_or(1.0)))
        .set("workers", J::U(nworkers as u64))
        .set("components", J::s("real code: all of acpi_tables (built from /repo's working tree with --cfg rust_vmm_acpi_tables_verif); stubs: only the harness-side AmlSink implementations (ByteOnly, AllOverride, six partial-override sinks, Aborting) and the Scripted Aml producer — the two seams the crate exposes"))
        .set("exhaustive", J::Bool(false));
    for (k, denom) in coverage_fractions(prop) {
        cov.put(&format!("{}_reached_of_{}", k, denom), J::U(total.set_len(k)));
    }
    let ev = J::obj()
        .set("property_id", J::s(prop))
        .set("tier", J::s(tier))
        .set("seed", J::U(seed))
        .set("level", J::s("exploration"))
        .set("coverage", cov)
        .set(
            "assumptions",
            J::A(vec![
                J::s("seeded search samples the history space; a clean batch is evidence, not proof"),
                J::s("specification constants (offsets, type codes, fixed sizes, flag bits) in sim/src/spec.rs and sim/src/optspec.rs were transcribed by hand from ACPI 6.5, CXL 3.0, TCG ACPI and the RISC-V RHCT/RQSC/RIMT documents"),
                J::s("allocation failure is not injected (it aborts the process); no concurrency, clock or I/O exists in the crate to simulate"),
            ]),
        )
        .set("wall_s", J::F(wall))
        .set("violations", J::U(new_violations.len() as u64));
    let evp = evidence_path.unwrap_or_else(|| format!("{}/evidence/{}.json", out_dir(), prop));
    let _ = std::fs::create_dir_all(format!("{}/evidence", out_dir()));
    std::fs::write(&evp, ev.to_string_pretty()).unwrap_or_else(|e| panic!("cannot write evidence {}: {}", evp, e));
    for (k, v) in &known_hits {
        println!("KNOWN-FINDING: {} ({} runs)", k, v);
    }
    println!("summary: property={} tier={} runs={} distinct_nontrivial={} steps={} observed_prefixes={} wall={:.1}s new_violations={}", prop, tier, runs, nontriv.len(), total.get("steps"), total.get("prefixes.observed"), wall, new_violations.len());
    if new_violations.is_empty() {
        0
    } else {
        for (p, _) in &new_violations {
            println!("VIOLATION property={} replay={}", prop, p);
        }
        1
    }
}

fn expected_probes(prop: &str) -> Vec<&'static str> {
    let mut v = vec!["prefixes.observed", "steps"];
    match prop {
        "C01" | "C02" => v.extend_from_slice(&["history.empty", "carry.byte1", "carry.byte2", "carry.count_255_to_256", "carry.count_65535_to_65536", "fault.sink_abort.fired", "fault.refusal.constructor", "fault.refusal.second_imsic", "fault.refusal.second_log_area", "fault.refusal.out_of_range_index", "c12.slit_diagonal_write", "c12.slit_same_cell_rewrite", "tpm2.log_area_set", "fault.refusal.left_unchanged"]),
        "C03" => v.extend_from_slice(&["history.empty", "carry.count_255_to_256", "carry.count_65535_to_65536", "entry.kinds", "entry.adjacent_kind_pairs", "fault.refusal.entry_unserialisable"]),
        "C05" => v.extend_from_slice(&["c05.handles_checked", "c05.references_checked", "c05.handle_checked_after_16_later_adds", "c05.handle_checked_after_256_later_adds", "c05.variable_size_node_between_mint_and_use", "c05.ref_pairs", "c05.handle_beyond_65535_checked"]),
        "C11" => v.extend_from_slice(&["c11.structures_checked", "c11.independence_pairs", "c11.option_subsets", "c11.non_canonical_order", "c11.repeated_option"]),
        "C12" => v.extend_from_slice(&["c12.slit_diagonal_write", "c12.slit_same_cell_rewrite", "c12.hmat_nonsquare_write", "c12.hmat_single_row_or_column_write", "c12.hmat_same_cell_rewrite", "c12.hmat_in_table_assignments", "fault.refusal.out_of_range_index", "c12.slit_shape_cells", "c12.hmat_shape_cells"]),
        "C13" => v.extend_from_slice(&["fault.refusal.oob_write", "fault.refusal.oob_write_huge_offset", "fault.producer_abort.fired", "fault.refusal.sdt_new_short_length", "c13.empty_slice_append", "c13.op_offclass", "c13.op_adjacency"]),
        "C14" => v.extend_from_slice(&["c14.object_sink_pairs", "c14.raw_form_compared", "fault.sink_abort.fired", "c14.abort_regions", "c14.aml_constructors", "c14.aml_objects", "sink.alloverride.byte_calls", "sink.alloverride.word_calls", "sink.alloverride.dword_calls", "sink.alloverride.qword_calls", "sink.alloverride.vec_calls"]),
        "C17" => v.extend_from_slice(&["c17.add_pairs", "c17.sub_pairs", "c17.undo_ops", "c17.sink_pushes", "fault.producer_abort.fired", "c17.slice_len_classes"]),
        _ => {}
    }
    v
}

/// coverage sets reported as a fraction of a known finite space
fn coverage_fractions(prop: &str) -> Vec<(&'static str, u64)> {
    match prop {
        "C17" => vec![("c17.add_pairs", 65536), ("c17.sub_pairs", 65536)],
        // all cells of all SLIT shapes N<=6: sum N^2 = 91; all cells of all HMAT shapes 1..6 x 1..6: (sum 1..6)^2 = 441
        "C12" => vec![("c12.slit_shape_cells", 91), ("c12.hmat_shape_cells", 441)],
        "C14" => vec![("c14.aml_constructors", crate::amlgen::N_SELECTORS)],
        // boolean-option subsets: 2^3 memory affinity, 2^2 generic initiator, 2^5 processor flags,
        // 2^9 cache builder options, 2^5 CFMWS restrictions, 2^2 SLLBI flags, 2^9 TCPA options,
        // 2^3 MSI frame setters
        "C11" => vec![
            ("c11.subsets.srat_memory_affinity", 8),
            ("c11.subsets.srat_generic_initiator", 4),
            ("c11.subsets.pptt_processor", 32),
            ("c11.subsets.pptt_cache", 512),
            ("c11.subsets.cedt_cfmws", 32),
            ("c11.subsets.tcpa_server", 512),
            ("c11.subsets.madt_gic_msi_frame", 8),
            ("c11.fadt_flags_invoked", 25),
            ("c11.fadt_flag_pairs_coinvoked", 300),
        ],
        _ => vec![],
    }
}

// ---------------------------------------------------------------------------------------------
// replay, selftest, debug
// ---------------------------------------------------------------------------------------------

pub fn replay(path: &str) -> i32 {
    let s = match std::fs::read_to_string(path) {
        Ok(s) => s,
        Err(e) => {
            eprintln!("cannot read {}: {}", path, e);
            return 2;
        }
    };
    let j = match json::parse(&s) {
        Ok(j) => j,
        Err(e) => {
            eprintln!("replay file does not parse: {}", e);
            return 2;
        }
    };
    let prop = j.get("property").and_then(|x| x.as_str()).unwrap_or("");
    let inv = j.get("invariant").and_then(|x| x.as_str()).unwrap_or("");
    let props = match prop_mask(prop) {
        Some(p) => p,
        None => {
            eprintln!("replay file names unknown property {}", prop);
            return 2;
        }
    };
    let trace = match j.get("trace").ok_or("no trace".to_string()).and_then(Op::from_json) {
        Ok(t) => t,
        Err(e) => {
            eprintln!("bad trace: {}", e);
            return 2;
        }
    };
    println!("replaying {} ({} top-level ops) for property {}: {}", trace.k.name(), trace.s.len(), prop, trace.brief());
    let r = execute(&trace, props, true);
    let mut hit = false;
    for v in &r.viol {
        println!("  violation: property={} invariant={} step={} :: {}", prop_name(v.prop), v.inv, v.step, v.detail);
        if inv.is_empty() || v.inv == inv {
            hit = true;
        }
    }
    println!("event log digest {:016x}", r.digest);
    if hit {
        println!("VIOLATION property={} replay={}", prop, path);
        1
    } else {
        println!("no violation of {} ({}) on this tree", prop, inv);
        0
    }
}

pub fn selftest_determinism(n: u64) -> i32 {
    // every claimed property's first two batches, n runs each, executed twice in this process with
    // different worker counts; the caller (./check selftest) additionally compares across processes
    // and build profiles by diffing the printed digests
    let seed = verif_seed();
    let mut ok = true;
    for prop in ["C01", "C02", "C03", "C05", "C11", "C12", "C13", "C14", "C17"] {
        let props = prop_mask(prop).unwrap();
        for b in batches(prop, false).iter().take(2) {
            let b2 = Batch { name: b.name, cfg: b.cfg.clone(), runs: n };
            let a = run_batch(prop, props, &b2, seed, 1, &[]);
            let c = run_batch(prop, props, &b2, seed, workers(), &[]);
            let same = a.digest == c.digest && a.st.n == c.st.n && a.distinct == c.distinct && a.violating_runs == c.violating_runs;
            println!("determinism {} {:<12} runs={} digest={:016x}/{:016x} violating={}/{} {}", prop, b.name, n, a.digest, c.digest, a.violating_runs, c.violating_runs, if same { "same" } else { "DIFFERENT" });
            ok &= same;
        }
    }
    if ok {
        0
    } else {
        println!("determinism selftest FAILED");
        2
    }
}

pub fn print_trace(prop: &str, batch: usize, run: u64) -> i32 {
    let bs = batches(prop, false);
    let b = match bs.get(batch) {
        Some(b) => b,
        None => return 2,
    };
    let mut rng = Rng::new(run_seed(verif_seed(), tag_of(prop, b.name), run));
    let t = gen_trace(&mut rng, &b.cfg, run);
    println!("{}", trace_file(prop, "", b.name, verif_seed(), run, t.k, "", &t, "n/a").to_string_pretty());
    0
}
