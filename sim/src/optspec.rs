//! C11: the option model. For every option-bearing structure: which bits/fields each option
//! governs at which specification offset, written from the specifications (ACPI 6.5 §5.2.9 FADT,
//! §5.2.12 MADT GICC / GIC MSI frame / local APIC / RINTC flags, §5.2.16 SRAT, §5.2.27 HMAT,
//! §5.2.30 PPTT, §18.3.2 HEST; CXL 3.0 §9.17.1.3 CFMWS window restrictions; TCG ACPI spec
//! TCPA server table; RIMT from the crate's golden tests), never from the crate's source.

use crate::op::{Op, K};

#[derive(Debug, Clone)]
pub struct FieldExp {
    pub what: &'static str,
    pub off: usize,
    pub width: usize,
    pub mask: u64,
    pub value: u64,
}

fn fe(what: &'static str, off: usize, width: usize, mask: u64, value: u64) -> FieldExp {
    FieldExp { what, off, width, mask, value }
}

fn any(op: &Op, k: K) -> bool {
    op.s.iter().any(|o| o.k == k)
}
fn last(op: &Op, k: K) -> Option<&Op> {
    op.s.iter().rev().find(|o| o.k == k)
}
fn full(width: usize) -> u64 {
    if width >= 8 {
        u64::MAX
    } else {
        (1u64 << (8 * width)) - 1
    }
}

/// madt EnabledStatus / HartStatus -> ACPI local APIC / RINTC flags (bit0 enabled, bit1 online capable)
fn status_flags(v: u64) -> u64 {
    match v % 3 {
        0 => 0,
        1 => 1,
        _ => 2,
    }
}

const GICC_SET: [(usize, usize); 12] = [(4, 4), (8, 4), (16, 4), (24, 8), (32, 8), (40, 8), (48, 8), (60, 8), (68, 8), (76, 1), (78, 2), (80, 2)];
const AER_SET: [(usize, usize); 10] = [(8, 4), (12, 4), (24, 2), (28, 4), (32, 4), (36, 4), (40, 4), (44, 4), (48, 4), (52, 4)];
const GHES_SET: [(usize, usize); 9] = [(8, 4), (12, 4), (16, 4), (20, 12), (32, 28), (60, 4), (64, 12), (76, 8), (84, 8)];

/// FADT Flags (ACPI 6.5 table 5.10): idx 0..=21 single bits; 22..=24 the two-bit
/// "persistent CPU caches" field (bits 22..23) with values 0, 1, 2.
pub fn fadt_flag_bits(idx: u64) -> u32 {
    match idx % 25 {
        i @ 0..=21 => 1u32 << i,
        22 => 0,
        23 => 1 << 22,
        _ => 2 << 22,
    }
}

/// Expected values of the flag / attribute / gate fields of the structure built by `op`
/// (entry ops, or the root op of a TCPA-server / FADT trace with the applied options in `op.s`).
/// Only what C11 states is expected here: flag bits, enumerated attributes and "values supplied"
/// gates. Whether a supplied *value* lands at its offset is C04's question (not claimed).
pub fn expected_fields(op: &Op) -> Vec<FieldExp> {
    let mut v = Vec::new();
    match op.k {
        K::MaLapic => v.push(fe("local APIC flags", 4, 4, u64::MAX, status_flags(op.arg(2)))),
        K::MaRintc => v.push(fe("RINTC flags", 4, 4, u64::MAX, status_flags(op.arg(0)))),
        K::MaGicc => {
            let mut f = match op.arg(0) % 3 {
                0 => 0,
                1 => 1,
                _ => 8,
            };
            if op.s.iter().any(|o| o.k == K::GcPerfInt && o.arg(1) % 2 == 0) {
                f |= 2;
            }
            if op.s.iter().any(|o| o.k == K::GcMaintInt && o.arg(1) % 2 == 0) {
                f |= 4;
            }
            v.push(fe("GICC flags", 12, 4, u64::MAX, f));
        }
        K::MaGicMsi => {
            let spi = last(op, K::MsSpi);
            // ACPI 6.5 table 5.38: bit 0 set = SPI count/base fields override MSI_TYPER
            v.push(fe("GIC MSI frame flags (SPI count/base select)", 16, 4, u64::MAX, if spi.is_some() { 1 } else { 0 }));
        }
        K::SrMemAff => {
            let f = (any(op, K::OptEnabled) as u64) | (any(op, K::OptHotplug) as u64) << 1 | (any(op, K::OptNonVolatile) as u64) << 2;
            v.push(fe("memory affinity flags", 28, 4, u64::MAX, f));
        }
        K::SrGenInit => {
            let f = (any(op, K::OptEnabled) as u64) | (any(op, K::OptArch) as u64) << 1;
            v.push(fe("generic initiator flags", 24, 4, u64::MAX, f));
        }
        K::SrRintcAff => {
            v.push(fe("RINTC affinity flags", 12, 4, u64::MAX, any(op, K::OptEnabled) as u64));
        }
        K::PpProc => {
            let f = (any(op, K::PnPhysical) as u64)
                | (any(op, K::PnValid) as u64) << 1
                | (any(op, K::PnThread) as u64) << 2
                | (any(op, K::PnLeaf) as u64) << 3
                | (any(op, K::PnIdentical) as u64) << 4;
            v.push(fe("processor node flags", 4, 4, u64::MAX, f));
        }
        K::PpCache => {
            let gates = [(K::CnSize, 0), (K::CnSets, 1), (K::CnAssoc, 2), (K::CnAlloc, 3), (K::CnType, 4), (K::CnPolicy, 5), (K::CnLineSize, 6), (K::CnId, 7)];
            let mut f = 0u64;
            for (k, b) in gates {
                if any(op, k) {
                    f |= 1 << b;
                }
            }
            v.push(fe("cache node flags (valid bits)", 4, 4, u64::MAX, f));
            let mut attr = 0u64;
            for o in &op.s {
                match o.k {
                    K::CnAlloc => attr |= o.arg(0) % 3,          // 0 read, 1 write, 2 read+write (bits 1:0)
                    K::CnType => attr |= (o.arg(0) % 3) << 2,    // 0 data, 1 instruction, 2 unified (bits 3:2)
                    K::CnPolicy => attr |= (o.arg(0) % 2) << 4,  // 0 write-back, 1 write-through (bit 4)
                    _ => {}
                }
            }
            v.push(fe("cache attributes", 21, 1, u64::MAX, attr));
        }
        K::CeCfmws => {
            let f = (any(op, K::WrType2) as u64)
                | (any(op, K::WrType3) as u64) << 1
                | (any(op, K::WrVolatile) as u64) << 2
                | (any(op, K::WrPersistent) as u64) << 3
                | (any(op, K::WrFixed) as u64) << 4;
            v.push(fe("CFMWS window restrictions", 32, 2, u64::MAX, f));
        }
        K::HmSysLoc | K::SysLocSubj => {
            let f = (op.arg(0) % 4) | (any(op, K::LocMinTransfer) as u64) << 4 | (any(op, K::LocNonSeq) as u64) << 5;
            v.push(fe("SLLBI flags", 8, 1, u64::MAX, f));
        }
        K::RiIommu => {
            let p = op.arg(1);
            let f = ((p >> 1) & 1) | ((p >> 2) & 1) << 1;
            v.push(fe("RIMT IOMMU flags", 16, 4, u64::MAX, f));
            for (i, w) in op.s.iter().filter(|o| o.k == K::RiWire).enumerate() {
                v.push(fe("RIMT interrupt wire flags", 32 + 8 * i + 4, 2, u64::MAX, (w.arg(1) & 1) | (w.arg(2) & 1) << 1));
            }
        }
        K::RiRc => {
            v.push(fe("RIMT root complex flags", 8, 4, u64::MAX, (op.arg(2) & 1) | (op.arg(3) & 1) << 1));
        }
        K::HeAerRoot | K::HeAerDev | K::HeAerBridge => {
            let f = if op.arg(0) % 2 == 0 { 2 } else { op.arg(1) % 2 };
            v.push(fe("HEST AER flags", 6, 1, u64::MAX, f));
        }
        K::HeGhes | K::HeGhesV2 => {
            // ACPI 6.5 table 18.x generic hardware error source: Enabled @7 (1 = enabled)
            v.push(fe("GHES enabled", 7, 1, u64::MAX, op.arg(1) % 2));
        }
        K::TcpaServer => {
            let dev = (any(op, K::TsPci) as u64) | (any(op, K::TsPnp) as u64) << 1 | (any(op, K::TsConfig) as u64) << 2;
            let int = (any(op, K::TsEdge) as u64) | (any(op, K::TsActiveLow) as u64) << 1 | (any(op, K::TsSciGpe) as u64) << 2 | (any(op, K::TsGsi) as u64) << 3;
            v.push(fe("TCPA device flags", 58, 1, u64::MAX, dev));
            v.push(fe("TCPA interrupt flags", 59, 1, u64::MAX, int));
        }
        K::Fadt => {
            let mut f = 0u64;
            for o in op.s.iter().filter(|o| o.k == K::FaFlag) {
                f |= fadt_flag_bits(o.arg(0)) as u64;
            }
            v.push(fe("FADT flags", 112, 4, u64::MAX, f));
            let profs: Vec<u64> = op.s.iter().filter(|o| o.k == K::FaProfile).map(|o| o.arg(0) % 9).collect();
            if profs.is_empty() {
                v.push(fe("FADT preferred PM profile", 45, 1, u64::MAX, 0));
            } else if profs.iter().all(|p| *p == profs[0]) {
                v.push(fe("FADT preferred PM profile", 45, 1, u64::MAX, profs[0]));
            }
        }
        _ => {}
    }
    v
}

/// Identity of an option call (calls with the same identity are "the same option").
pub fn opt_id(parent: K, o: &Op) -> (K, u64) {
    match o.k {
        K::GcSet | K::HeSet => (o.k, o.arg(0)),
        K::FaPoke => (o.k, o.arg(0) % crate::exec::FADT_POKE_FIELDS),
        K::FaFlag => (o.k, o.arg(0) % 25),
        K::LocSetInit | K::LocSetTarget => (o.k, o.arg(0)),
        K::LocSetEntry => (o.k, o.arg(0) << 32 | o.arg(1) & 0xffff_ffff),
        _ => {
            let _ = parent;
            (o.k, 0)
        }
    }
}

/// Byte ranges (offset, len) of the structure that option call `o` governs; None if `o` is not an
/// option in the sense of C11 (sub-element adders change the length and are C03's business).
pub fn governed(parent: &Op, o: &Op) -> Option<Vec<(usize, usize)>> {
    Some(match (parent.k, o.k) {
        (K::MaGicc, K::GcPerfInt) => vec![(12, 4), (20, 4)],
        (K::MaGicc, K::GcMaintInt) => vec![(12, 4), (56, 4)],
        (K::MaGicc, K::GcSet) => vec![*GICC_SET.get(o.arg(0) as usize)?],
        (K::MaGicMsi, K::MsFrameId) => vec![(4, 4)],
        (K::MaGicMsi, K::MsBase) => vec![(8, 8)],
        (K::MaGicMsi, K::MsSpi) => vec![(16, 4), (20, 4)],
        (K::SrMemAff, K::OptEnabled | K::OptHotplug | K::OptNonVolatile) => vec![(28, 4)],
        (K::SrGenInit, K::OptEnabled | K::OptArch) => vec![(24, 4)],
        (K::SrRintcAff, K::OptEnabled) => vec![(12, 4)],
        (K::SrRintcAff, K::OptProxDomain) if crate::compat::HAS_RINTC_AFF_PROX => vec![(4, 4)],
        (K::PpProc, K::PnPhysical | K::PnValid | K::PnThread | K::PnLeaf | K::PnIdentical) => vec![(4, 4)],
        (K::PpCache, K::CnNextLevel) => vec![(8, 4)],
        (K::PpCache, K::CnSize) => vec![(4, 4), (12, 4)],
        (K::PpCache, K::CnSets) => vec![(4, 4), (16, 4)],
        (K::PpCache, K::CnAssoc) => vec![(4, 4), (20, 1)],
        (K::PpCache, K::CnAlloc | K::CnType | K::CnPolicy) => vec![(4, 4), (21, 1)],
        (K::PpCache, K::CnLineSize) => vec![(4, 4), (22, 2)],
        (K::PpCache, K::CnId) => vec![(4, 4), (24, 4)],
        (K::CeCfmws, K::WrType2 | K::WrType3 | K::WrVolatile | K::WrPersistent | K::WrFixed) => vec![(32, 2)],
        (K::HmSysLoc | K::SysLocSubj, K::LocNonSeq | K::LocMinTransfer) => vec![(8, 1)],
        (K::HeAerRoot, K::HeSet) if o.arg(0) < 8 => vec![AER_SET[o.arg(0) as usize]],
        (K::HeAerDev, K::HeSet) if o.arg(0) < 7 => vec![AER_SET[o.arg(0) as usize]],
        (K::HeAerBridge, K::HeSet) if o.arg(0) < 10 => vec![AER_SET[o.arg(0) as usize]],
        (K::HeGhes, K::HeSet) if o.arg(0) < 6 => vec![GHES_SET[o.arg(0) as usize]],
        (K::HeGhesV2, K::HeSet) if o.arg(0) < 9 => vec![GHES_SET[o.arg(0) as usize]],
        // TCPA server table: 9 is the table checksum byte, which every option legitimately moves
        (K::TcpaServer, K::TsLogArea) => vec![(9, 1), (40, 16)],
        (K::TcpaServer, K::TsActiveLow | K::TsEdge) => vec![(9, 1), (59, 1)],
        (K::TcpaServer, K::TsSciGpe) => vec![(9, 1), (59, 1), (60, 1)],
        (K::TcpaServer, K::TsGsi) => vec![(9, 1), (59, 1), (64, 4)],
        (K::TcpaServer, K::TsPnp) => vec![(9, 1), (58, 1)],
        (K::TcpaServer, K::TsPci) => vec![(9, 1), (58, 1), (96, 4)],
        (K::TcpaServer, K::TsBase) => vec![(9, 1), (68, 12)],
        (K::TcpaServer, K::TsConfig) => vec![(9, 1), (58, 1), (84, 12)],
        (K::Fadt, K::FaFlag) => vec![(9, 1), (112, 4)],
        (K::Fadt, K::FaProfile) => vec![(9, 1), (45, 1)],
        (K::Fadt, K::FaDsdt32 | K::FaDsdt64) => vec![(9, 1), (40, 4), (140, 8)],
        (K::Fadt, K::FaFw32 | K::FaFw64) => vec![(9, 1), (36, 4), (132, 8)],
        (K::Fadt, K::FaAcpiEnable | K::FaAcpiDisable) => vec![(9, 1), (52, 2)],
        (K::Fadt, K::FaGpe) => vec![(9, 1), (80, 8), (92, 3)],
        (K::Fadt, K::FaPoke) => {
            let (o_, l) = crate::exec::fadt_poke_range(o.arg(0));
            vec![(9, 1), (o_, l)]
        }
        _ => return None,
    })
}

/// Must removing every call of this option change the emitted bytes? (boolean options and
/// options that raise a "values supplied" gate; plain value setters may coincide with the default)
pub fn must_differ(parent: &Op, o: &Op) -> bool {
    match (parent.k, o.k) {
        (_, K::OptEnabled | K::OptHotplug | K::OptNonVolatile | K::OptArch) => true,
        (_, K::PnPhysical | K::PnValid | K::PnThread | K::PnLeaf | K::PnIdentical) => true,
        (_, K::CnSize | K::CnSets | K::CnAssoc | K::CnAlloc | K::CnType | K::CnPolicy | K::CnLineSize | K::CnId) => true,
        (_, K::WrType2 | K::WrType3 | K::WrVolatile | K::WrPersistent | K::WrFixed) => true,
        (_, K::LocNonSeq | K::LocMinTransfer) => true,
        (_, K::MsSpi) => true,
        (_, K::TsActiveLow | K::TsEdge | K::TsSciGpe | K::TsGsi | K::TsPnp | K::TsPci | K::TsConfig) => true,
        (_, K::FaFlag) => fadt_flag_bits(o.arg(0)) != 0,
        (K::MaGicc, K::GcPerfInt | K::GcMaintInt) => {
            // an edge-triggered call raises its mode bit
            parent.s.iter().any(|x| x.k == o.k && x.arg(1) % 2 == 0)
        }
        _ => false,
    }
}
