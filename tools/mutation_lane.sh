#!/bin/bash
# mutation_lane.sh <lane-id> <n-lanes> : scratch mutation analysis lane. Works only under /tmp/mut.
# For every mutant patch with index % n-lanes == lane-id: apply to the lane's own worktree of /repo,
# run the crate's unit tests; if all 88 pass, build the lane's copy of the harness against it and
# run the nine quick checks at a reduced budget. Results: /tmp/mut/results.<lane>.tsv
set -u
lane="$1"; nl="$2"
root=/tmp/mut; repo=$root/repo$lane; sim=$root/sim$lane; out=$root/out$lane
export CARGO_NET_OFFLINE=true
[ -d $repo ] || git -C /repo worktree add -q $repo HEAD
rm -rf $sim; mkdir -p $sim $out
cp -r /verif/sim/src /verif/sim/Cargo.toml /verif/sim/Cargo.lock $sim/
mkdir -p $sim/.cargo
sed "s|/verif/sim/target|$sim/target|" /verif/sim/.cargo/config.toml > $sim/.cargo/config.toml
sed -i "s|path = \"/repo\"|path = \"$repo\"|" $sim/Cargo.toml
res=$root/results.$lane.tsv; : > $res
for p in $(ls $root/patches/*.diff | sort); do
    n=$(basename $p .diff); idx=$((10#$n))
    [ $((idx % nl)) -eq $lane ] || continue
    desc=$(cat $root/patches/$n.txt | tr '\t\n' '  ')
    cd $repo; git checkout -q -- .
    if ! git apply $p 2>/dev/null; then echo -e "$n\tnoapply\t-\t$desc" >> $res; continue; fi
    t=$(cargo test --offline --lib 2>&1 | grep -E "^test result|^error" | head -1)
    case "$t" in
      *"88 passed; 0 failed"*) ;;
      *error*) echo -e "$n\tcompile_error\t-\t$desc" >> $res; git checkout -q -- .; continue;;
      *) echo -e "$n\tkilled_by_unit_tests\t-\t$desc" >> $res; git checkout -q -- .; continue;;
    esac
    cd $sim
    if ! cargo build --release --offline >$out/build.log 2>&1; then echo -e "$n\tharness_build_fail\t-\t$desc" >> $res; cd $repo; git checkout -q -- .; continue; fi
    caught=""
    for P in C01 C02 C03 C05 C11 C12 C13 C14 C17; do
        ACPISIM_OUT=$out VERIF_WORKERS=5 VERIF_SCALE=0.06 $sim/target/release/acpisim check $P quick --evidence $out/ev.json >$out/check.log 2>&1; rc=$?
        [ $rc -eq 1 ] && caught="$caught $P"
        [ $rc -ge 2 ] && caught="$caught $P(rc=$rc)"
    done
    if [ -n "$caught" ]; then echo -e "$n\tdetected\t$caught\t$desc" >> $res; else echo -e "$n\tSURVIVED\t-\t$desc" >> $res; fi
    cd $repo; git checkout -q -- .
done
echo "lane $lane done" >> $res
