#!/bin/bash
# try_patch_dev.sh <patch.diff> <property>... : like try_patch.sh but in the scratch dev lane
# (/tmp/dev/repo + /tmp/dev/sim, see devlane.sh), so /repo is not touched.
set -u
patch="$1"; shift
root=/tmp/dev
git -C $root/repo checkout -q -- .
git -C $root/repo apply "$patch" || { echo "patch does not apply"; exit 2; }
(cd $root/sim && CARGO_NET_OFFLINE=true cargo build --release --offline >$root/out/build.log 2>&1) || { echo "build failed"; git -C $root/repo checkout -q -- .; exit 2; }
for p in "$@"; do
    out=$(ACPISIM_OUT=$root/out VERIF_WORKERS=${VERIF_WORKERS:-8} $root/sim/target/release/acpisim check "$p" quick --evidence $root/out/ev.json 2>&1); rc=$?
    echo "== $p rc=$rc"
    echo "$out" | grep -E "^violation|HARNESS" | cut -c1-260 | head -3
done
git -C $root/repo checkout -q -- .
(cd $root/sim && CARGO_NET_OFFLINE=true cargo build --release --offline >$root/out/build.log 2>&1)
