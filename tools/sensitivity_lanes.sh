#!/bin/bash
# sensitivity_lanes.sh [lanes] [scale]: the same experiment as sensitivity.sh, but in scratch lanes
# under /tmp/sens (own worktree of /repo's HEAD + own copy of /verif/sim built against it), so /repo and
# /verif are never touched and several lanes run in parallel. Every kept seeded change and every
# reverted fix must make its property's quick check exit 1 with a replay that reproduces (exit 1
# with the change, exit 0 without); the unchanged tree must exit 0 for all nine checks.
set -u
nl="${1:-3}"; scale="${2:-1.0}"
root=/tmp/sens; rm -rf $root; mkdir -p $root
export CARGO_NET_OFFLINE=true
declare -A RP=( [6258280]=C01 [519e8d3]=C01 [c6c7ccf]=C01 [938094a]=C01 [6d23c89]=C01 [d75cdc2]=C01 [6ac34dd]=C12 [4669a85]=C02 [b35cb09]=C02 [49207bb]=C02 [a9e9831]=C11 [518a95c]=C11 )
# work list: label<TAB>patch<TAB>property
: > $root/work.tsv
for d in /verif/seeded/*/; do id=$(basename $d); prop=$(python3 -c "import json;print(json.load(open('$d/meta.json'))['breaks_property'])"); echo -e "seeded/$id\t$d/patch.diff\t$prop" >> $root/work.tsv; done
for f in /verif/regressions/*.diff; do c=$(basename $f | cut -d- -f1); echo -e "regression/$(basename $f .diff)\t$f\t${RP[$c]}" >> $root/work.tsv; done
# optional: SENS_FILTER=<extended regexp> restricts the work list (a subset re-run)
if [ -n "${SENS_FILTER:-}" ]; then grep -E "$SENS_FILTER" $root/work.tsv > $root/work.f; mv $root/work.f $root/work.tsv; fi
lane() {
    local l=$1 repo=$root/repo$1 sim=$root/sim$1 out=$root/out$1
    git -C /repo worktree add -q $repo HEAD
    mkdir -p $sim/.cargo $out
    cp -r /verif/sim/src /verif/sim/Cargo.toml /verif/sim/Cargo.lock $sim/
    sed "s|/verif/sim/target|$sim/target|" /verif/sim/.cargo/config.toml > $sim/.cargo/config.toml
    sed -i "s|path = \"/repo\"|path = \"$repo\"|" $sim/Cargo.toml
    local bin=$sim/target/release/acpisim n=0
    while IFS=$'\t' read -r label patch prop; do
        n=$((n+1)); [ $((n % nl)) -eq $l ] || continue
        git -C $repo checkout -q -- .
        git -C $repo apply "$patch" || { echo "ERROR $label: patch does not apply" >> $root/res$l.txt; continue; }
        (cd $sim && cargo build --release --offline >$out/build.log 2>&1 && cargo build --profile checked --offline >>$out/build.log 2>&1) || { echo "ERROR $label: build failed" >> $root/res$l.txt; continue; }
        # as ./check does: a tenth of the budget in the checked profile first, then the release run
        o1=$(ACPISIM_OUT=$out VERIF_WORKERS=6 VERIF_SCALE=$(python3 -c "print($scale*0.1)") $sim/target/checked/acpisim check $prop quick --evidence $out/ev.json 2>&1); rc1=$?
        o=$(ACPISIM_OUT=$out VERIF_WORKERS=6 VERIF_SCALE=$scale $bin check $prop quick --evidence $out/ev.json 2>&1); rc=$?
        if [ $rc -ne 1 ] && [ $rc1 -eq 1 ]; then o="$o1"; rc=1; bin_replay=$sim/target/checked/acpisim; else bin_replay=$bin; fi
        rp=$(echo "$o" | grep -m1 '^VIOLATION' | sed 's/.*replay=//'); rrc=-; after=-
        [ -n "$rp" ] && { $bin_replay replay "$rp" >/dev/null 2>&1; rrc=$?; }
        git -C $repo checkout -q -- .
        (cd $sim && cargo build --release --offline >$out/build.log 2>&1 && cargo build --profile checked --offline >>$out/build.log 2>&1)
        [ -n "$rp" ] && { $bin_replay replay "$rp" >/dev/null 2>&1; after=$?; }
        v=DETECTED; { [ $rc -ne 1 ] || [ "$rrc" != 1 ] || [ "$after" != 0 ]; } && v=MISSED
        echo "$v $label property=$prop check_rc=$rc replay_rc_with_change=$rrc replay_rc_after_revert=$after :: $(echo "$o" | grep -m1 '^violation' | cut -c1-180)" >> $root/res$l.txt
    done < $root/work.tsv
    if [ $l -eq 0 ]; then
        for p in C01 C02 C03 C05 C11 C12 C13 C14 C17; do
            o=$(ACPISIM_OUT=$out VERIF_WORKERS=6 VERIF_SCALE=$scale $bin check $p quick --evidence $out/ev.json 2>&1); rc=$?
            v=CLEAN; [ $rc -ne 0 ] && v=ALARM-ON-UNCHANGED-TREE
            echo "$v unchanged-tree property=$p check_rc=$rc" >> $root/res$l.txt
        done
    fi
    git -C /repo worktree remove --force $repo
}
for l in $(seq 0 $((nl-1))); do lane $l & done; wait
git -C /repo worktree prune
{ echo "# sensitivity run $(date -u +%FT%TZ) filter=${SENS_FILTER:-none} VERIF_SCALE=$scale lanes=$nl repo=$(git -C /repo rev-parse --short HEAD) verif=$(git -C /verif rev-parse --short HEAD) (scratch lanes under /tmp/sens; /repo untouched)"; cat $root/res*.txt | sort -k2; } > /verif/SENSITIVITY.txt
grep -cE "^DETECTED" /verif/SENSITIVITY.txt; grep -E "^(MISSED|ERROR|ALARM)" /verif/SENSITIVITY.txt
rm -rf $root
