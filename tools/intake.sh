#!/bin/bash
# intake.sh <worktree> <prop> <src-letter> <dest-letter>: confirm a sub-agent's candidate change in its scratch
# worktree and, if confirmed, store it as /verif/seeded/<prop>-<dest-letter>/ (patch.diff, demo.rs, agent_notes.md)
set -u
wt="$1"; prop="$2"; src="$3"; dst="$4"
r=$(/verif/tools/confirm_seed.sh "$wt" "$wt/seed_out/$src.diff" "$wt/seed_out/demo_$src.rs")
echo "$prop-$dst ($src): $r"
case "$r" in CONFIRMED*)
    d=/verif/seeded/$prop-$dst; mkdir -p $d
    cp "$wt/seed_out/$src.diff" $d/patch.diff; cp "$wt/seed_out/demo_$src.rs" $d/demo.rs; cp "$wt/seed_out/notes.md" $d/agent_notes.md
    echo "$r" > $d/confirmation.txt ;;
esac
