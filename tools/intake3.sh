#!/bin/bash
# intake3.sh <worktree>: intake a round-3 worktree whose seed_out/props.txt names the property of each change
set -u
wt="$1"
while read -r letter prop; do
    [ -z "$letter" ] && continue
    n=$(ls -d /verif/seeded/$prop-* 2>/dev/null | wc -l)
    dst=$(echo ABCDEFGHIJKLMNOPQRSTUVWXYZ | cut -c$((n+1)))
    /verif/tools/intake.sh "$wt" "$prop" "$letter" "$dst"
    [ -d /verif/seeded/$prop-$dst ] && echo "$(basename $wt) $letter" > /verif/seeded/$prop-$dst/origin.txt
done < "$wt/seed_out/props.txt"
