#!/bin/bash
# sensitivity.sh [scale] : every kept seeded change and every reverted fix must make its property's
# quick check exit 1 (with a replay that reproduces), and the unchanged tree must exit 0.
# /repo is restored after every patch. Writes /verif/SENSITIVITY.txt.
set -u
scale="${1:-1.0}"
cd /verif
out=/verif/SENSITIVITY.txt
echo "# sensitivity run $(date -u +%FT%TZ) VERIF_SCALE=$scale repo=$(git -C /repo rev-parse --short HEAD)" > $out
fail=0
run() { # label patch prop
    local label="$1" patch="$2" prop="$3"
    git -C /repo apply "/verif/$patch" || { echo "$label: patch does not apply" | tee -a $out; fail=1; return; }
    local o; o=$(VERIF_SCALE=$scale ./check "$prop" quick 2>&1); local rc=$?
    local rp; rp=$(echo "$o" | grep -m1 '^VIOLATION' | sed 's/.*replay=//')
    local rrc=-; [ -n "$rp" ] && { ./check replay "$rp" >/dev/null 2>&1; rrc=$?; }
    git -C /repo checkout -q -- .
    local after=-; [ -n "$rp" ] && { ./check replay "$rp" >/dev/null 2>&1; after=$?; }
    local verdict=DETECTED; [ $rc -ne 1 ] && { verdict=MISSED; fail=1; }
    echo "$verdict $label property=$prop check_rc=$rc replay_rc_with_change=$rrc replay_rc_after_revert=$after :: $(echo "$o" | grep -m1 '^violation' | cut -c1-200)" | tee -a $out
}
for d in seeded/*/; do
    id=$(basename "$d"); prop=$(python3 -c "import json;print(json.load(open('$d/meta.json'))['breaks_property'])")
    run "seeded/$id" "$d/patch.diff" "$prop"
done
declare -A RP=( [6258280]=C01 [519e8d3]=C01 [c6c7ccf]=C01 [938094a]=C01 [6d23c89]=C01 [d75cdc2]=C01 [6ac34dd]=C12 [4669a85]=C02 [b35cb09]=C02 [49207bb]=C02 [a9e9831]=C11 [518a95c]=C11 )
for f in regressions/*.diff; do
    c=$(basename "$f" | cut -d- -f1)
    run "regression/$(basename $f .diff)" "$f" "${RP[$c]}"
done
for p in C01 C02 C03 C05 C11 C12 C13 C14 C17; do
    o=$(VERIF_SCALE=$scale ./check $p quick 2>&1); rc=$?
    v=CLEAN; [ $rc -ne 0 ] && { v=ALARM-ON-UNCHANGED-TREE; fail=1; }
    echo "$v unchanged-tree property=$p check_rc=$rc" | tee -a $out
done
exit $fail
