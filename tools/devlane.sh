#!/bin/bash
# devlane.sh setup      : scratch copy of the harness (/tmp/dev/sim) built against a scratch worktree of
#                         /repo's HEAD (/tmp/dev/repo), for experiments that must not touch /repo or /verif
# devlane.sh build      : rebuild it;   devlane.sh drop : remove it
set -u
root=/tmp/dev
export CARGO_NET_OFFLINE=true
case "${1:-}" in
setup)
    rm -rf $root/sim; mkdir -p $root/sim/.cargo $root/out
    [ -d $root/repo ] || git -C /repo worktree add -q $root/repo HEAD
    cp -r /verif/sim/src /verif/sim/Cargo.toml /verif/sim/Cargo.lock $root/sim/
    sed "s|/verif/sim/target|$root/sim/target|" /verif/sim/.cargo/config.toml > $root/sim/.cargo/config.toml
    sed -i "s|path = \"/repo\"|path = \"$root/repo\"|" $root/sim/Cargo.toml
    cd $root/sim && cargo build --release --offline 2>&1 | grep -E "^(error|warning)" -A 8 | head -40 ;;
build) cd $root/sim && cargo build --release --offline 2>&1 | grep -E "^(error|warning)" -A 8 | head -40 ;;
drop) git -C /repo worktree remove --force $root/repo; git -C /repo worktree prune; rm -rf $root ;;
*) echo "usage: devlane.sh setup|build|drop"; exit 2 ;;
esac
