#!/bin/bash
# confirm_seed.sh <worktree> <diff> <demo.rs>
# Confirms, in a scratch worktree of /repo, that a candidate property-breaking change (1) applies and compiles,
# (2) keeps the crate's 88 unit tests passing, (3) makes its demonstration fail, and (4) the
# demonstration passes without it. Prints one line: CONFIRMED or REJECTED <why>.
set -u
wt="$1"; diff="$2"; demo="$3"
cd "$wt" || { echo "REJECTED no worktree"; exit 1; }
git checkout -q -- . 2>/dev/null; rm -rf tests; mkdir -p tests
export CARGO_NET_OFFLINE=true
name=$(basename "$demo" .rs)
cp "$demo" "tests/$name.rs"
# without the change: demo passes
if ! cargo test --offline --test "$name" >/tmp/confirm_$$.log 2>&1; then echo "REJECTED demo fails on unmodified tree"; tail -5 /tmp/confirm_$$.log; rm -rf tests; exit 1; fi
git apply "$diff" || { echo "REJECTED diff does not apply"; rm -rf tests; exit 1; }
lib=$(cargo test --offline --lib 2>&1 | grep -E "^test result" | head -1)
case "$lib" in *"88 passed; 0 failed"*) ;; *) echo "REJECTED unit tests: $lib"; git checkout -q -- src; rm -rf tests; exit 1;; esac
if cargo test --offline --test "$name" >/tmp/confirm_$$.log 2>&1; then echo "REJECTED demo passes with the change"; git checkout -q -- src; rm -rf tests; exit 1; fi
fails=$(grep -cE "^test .* FAILED" /tmp/confirm_$$.log)
git checkout -q -- src; rm -rf tests /tmp/confirm_$$.log
echo "CONFIRMED unit tests 88/88 with change; demo: passes without, $fails failing test(s) with"
