#!/bin/bash
# try_patch.sh <patch.diff> <property>... : apply a change to /repo, run the quick checks of the
# given properties, print their exit codes, and ALWAYS restore /repo afterwards.
set -u
patch="$1"; shift
cd /repo || exit 2
if [ -n "$(git status --porcelain -- src)" ]; then echo "/repo/src is dirty; refusing"; exit 2; fi
git apply "$patch" || { echo "patch does not apply"; exit 2; }
trap 'git -C /repo checkout -q -- .' EXIT
for p in "$@"; do
    out=$(cd /verif && ./check "$p" quick 2>&1); rc=$?
    echo "== $p rc=$rc"
    echo "$out" | grep -E "^violation|^VIOLATION|HARNESS|^KNOWN" | cut -c1-260 | head -8
done
