#!/usr/bin/env python3
"""Generate first-order mutants of acpi_tables' non-test source (lines that touch lengths, counts,
checksums, offsets, flags) as unified diffs. Usage: mutate.py <repo> <outdir> <max> [seed]"""
import re, sys, os, random, difflib
repo, out, maxn = sys.argv[1], sys.argv[2], int(sys.argv[3])
seed = int(sys.argv[4]) if len(sys.argv) > 4 else 1
os.makedirs(out, exist_ok=True)
FILES = ["lib.rs","sdt.rs","xsdt.rs","mcfg.rs","madt.rs","srat.rs","slit.rs","hmat.rs","pptt.rs","rhct.rs","rimt.rs","viot.rs","cedt.rs","hest.rs","rqsc.rs","tpm2.rs","fadt.rs","bert.rs","spcr.rs","rsdp.rs","facs.rs","gas.rs"]
KEY = re.compile(r"len|length|checksum|cksum|handle_offset|flags|\|=|count|update_header|\.append\(|\.delete\(|\.add\(|\.sub\(|offset|sink\.|1 <<|entries\[|localities|initiators|targets|resize|push|nodes|devices|structures")
OPS = [
 (r"\+=", "-="), (r"-=", "+="), (r" \+ ", " - "), (r" - ", " + "), (r" \* ", " + "),
 (r"\|=", "="), (r"\|=", "&="), (r" \| ", " & "),
 (r"<=", "<"), (r" < ", " <= "), (r"==", "!="), (r"!=", "=="), (r" > ", " >= "),
 (r"\.delete\(", ".append("), (r"\.append\(", ".delete("), (r"\.add\(", ".sub("), (r"\.sub\(", ".add("),
 (r"wrapping_add", "wrapping_sub"), (r"wrapping_sub", "wrapping_add"),
 (r"as u16", "as u8"), (r"as u32", "as u16"),
 (r"domain_a", "domain_b"), (r"initiators", "targets"), (r"targets", "initiators"),
 (r"is_some\(\)", "is_none()"), (r"\btrue\b", "false"), (r"\bfalse\b", "true"),
]
def num_mut(line):
    res=[]
    for m in re.finditer(r"(?<![\w.])(\d+)(?![\w.\]])", line):
        v=int(m.group(1))
        for nv in (v+1, v-1 if v>0 else None):
            if nv is None: continue
            res.append(line[:m.start()]+str(nv)+line[m.end():])
    for m in re.finditer(r"1 << (\d+)", line):
        v=int(m.group(1)); res.append(line[:m.start()]+f"1 << {v+1}"+line[m.end():])
    return res
cands=[]
for f in FILES:
    path=os.path.join(repo,"src",f)
    lines=open(path).read().split("\n")
    end=len(lines)
    for i,l in enumerate(lines):
        if l.strip().startswith("#[cfg(test)]") and i+1<len(lines) and lines[i+1].strip().startswith("mod "):
            end=i; break
    for i,l in enumerate(lines[:end]):
        st=l.strip()
        if not st or st.startswith("//") or st.startswith("#") or st.startswith("use ") or st.startswith("///"): continue
        if not KEY.search(l): continue
        muts=set()
        for pat,rep in OPS:
            for m in re.finditer(pat,l):
                muts.add(l[:m.start()]+rep+l[m.end():])
        for x in num_mut(l): muts.add(x)
        if st.endswith(";") and not st.startswith("let ") and not st.startswith("return") and "assert" not in st and re.search(r"checksum|update_header|handle_offset|\.push\(|length", st):
            muts.add(None)  # statement deletion
        for mu in muts:
            if mu==l: continue
            cands.append((f,i,mu))
random.Random(seed).shuffle(cands)
# stratify: at most maxn/len(FILES)*3 per file
per={}; chosen=[]
cap=max(4, maxn*3//len(FILES))
for c in cands:
    if per.get(c[0],0)>=cap: continue
    per[c[0]]=per.get(c[0],0)+1; chosen.append(c)
    if len(chosen)>=maxn: break
for n,(f,i,mu) in enumerate(chosen):
    path=os.path.join(repo,"src",f)
    a=open(path).read().split("\n")
    b=list(a)
    if mu is None: b[i]="// mutant: statement deleted"
    else: b[i]=mu
    d=difflib.unified_diff([x+"\n" for x in a],[x+"\n" for x in b],f"a/src/{f}",f"b/src/{f}",n=2)
    txt="".join(d)
    # difflib: fix final newline artefact
    open(os.path.join(out,f"{n:04d}.diff"),"w").write(txt)
    open(os.path.join(out,f"{n:04d}.txt"),"w").write(f"{f}:{i+1}: {a[i].strip()}  ==>  {'<deleted>' if mu is None else mu.strip()}\n")
print(len(cands),"candidates;",len(chosen),"written")
